# C02 -- Virtual Um routing: bursts reach exactly the tuned, running peers.
# The routing decision *is* a guard structure; we compute the edge-dominating
# branch literals of the single delivery call and compare the set.

import ast

from report import AnalysisError
from pyfront import calls_in as calls_in_
from pyfront import (Repo, CFG, canon, guard_literals, attr_accesses, literals,
                     qualname, calls_in, TK)
from pyutil import (params, deep_subst, find_calls, tuple_pos_def, returns,
                    lit_fmt, rel, stores_to_attr, name_of, kwarg)

EXPLANATION = (
    "Static guard-set analysis of the burst forwarder: the control-dependence "
    "(edge-dominator) literals of the only delivery call in "
    "BurstForwarder.forward_msg are computed on the statement CFG and must be "
    "exactly {peer != sender, peer.running, peer Rx freq(FN) == sender Tx "
    "freq(FN)}; frequency resolvers, the SETFH pair order, the clock-tick "
    "dispatcher and who-may-call of the delivery/forward entry points are "
    "checked over the whole toolkit. Holds for every configuration and frame "
    "number because it is a statement about all paths of the code.")
ASSUMPTIONS = [
    "transceiver objects define no __eq__ (checked: no __eq__ in the toolkit), so == and `is` coincide",
    "HoppingParams.resolve itself is C07's business",
]


def sym(a, b):
    lo, hi = sorted([a, b])
    return lo, hi


def r1_forward_msg(L, repo):
    ci, fm = repo.need_method("burst_fwd", "BurstForwarder", "forward_msg")
    F = rel("burst_fwd")
    L.unit(F)
    L.fn(F, "BurstForwarder.forward_msg")
    ps = params(fm)
    if len(ps) != 3:
        raise AnalysisError("forward_msg signature changed: %s" % ps)
    _, S, M = ps
    cfg = CFG(fm)
    sinks = find_calls(fm, attr="handle_data_msg")
    L.floor("C02.R1", "delivery sink calls in forward_msg", len(sinks), 1)
    fn = "BurstForwarder.forward_msg"
    L.require("C02.R1", F, fn, "number of delivery calls (.handle_data_msg)", 1, len(sinks),
              line=sinks[0].lineno)
    # the FN used for frequency matching must not be rewritten here
    L.require("C02.R1", F, fn, "stores to .fn inside forward_msg", 0,
              len(stores_to_attr(fm, "fn")))
    for sink in sinks:
        node = cfg.node_of(sink)
        loop = cfg.in_loop(node)
        if loop is None or not isinstance(loop, ast.For):
            L.ob("C02.R1", F, fn, "delivery call is inside the loop over the transceiver list",
                 "inside `for trx in self.trx_list`", "outside any for-loop", False, sink.lineno)
            continue
        V = name_of(loop.target)
        if V is None:
            raise AnalysisError("forward_msg loop target unclassifiable")
        it = canon(loop.iter)
        L.require("C02.R1", F, fn, "loop iterates the full transceiver list", "self.trx_list", it,
                  line=loop.lineno)
        recv = sink.func.value
        L.require("C02.R1", F, fn, "delivery is invoked on the loop's transceiver", V,
                  canon(recv), line=sink.lineno)
        # exits from the loop other than exhaustion
        brk = [n for n in ast.walk(loop) if isinstance(n, (ast.Break, ast.Return))]
        L.require("C02.R1", F, fn, "break/return inside the delivery loop", 0, len(brk),
                  line=brk[0].lineno if brk else loop.lineno)
        # nested loops between loop and sink
        L.ob("C02.R1", F, fn, "delivery call directly in the transceiver loop (one call per peer)",
             "innermost loop is the transceiver loop", "nested", cfg.in_loop(node) is loop,
             sink.lineno)
        subst = deep_subst(fm, exclude=(V,))
        lits = guard_literals(cfg, node, subst)
        fnexpr = "%s.fn" % M
        a, b = sym(S, V)
        idlit = {("%s == %s" % (a, b), False), ("%s is %s" % (a, b), False)}
        fa, fb = sym("%s.get_rx_freq(%s)" % (V, fnexpr), "%s.get_tx_freq(%s)" % (S, fnexpr))
        expected_fixed = {("%s.running" % V, True),
                          ("%s == %s" % (fa, fb), True),
                          ("for %s in self.trx_list" % V, True)}
        got = set(lits)
        idgot = got & idlit
        rest = got - idlit
        L.ob("C02.R1", F, fn, "guard: no delivery back to the sender",
             "%s != %s on every path to the delivery call" % (V, S), lit_fmt(idgot),
             len(idgot) >= 1, sink.lineno)
        for lit in sorted(expected_fixed):
            L.ob("C02.R1", F, fn, "guard literal required: %s%s" % ("" if lit[1] else "not ", lit[0]),
                 "present", "present" if lit in rest else "missing; guards=%s" % lit_fmt(got),
                 lit in rest, sink.lineno)
        extra = rest - expected_fixed
        L.ob("C02.R1", F, fn, "no extra condition withholds a due copy",
             [], lit_fmt(extra), not extra, sink.lineno)
        # R4: header version of the recipient; args (src_trx, src_msg, msg)
        args = [canon(a, subst) for a in sink.args]
        L.require("C02.R1", F, fn, "delivery call passes (sender, original message, ...)",
                  [S, M], args[:2], line=sink.lineno)
        want = "%s.trans(ver=%s.data_if._hdr_ver)" % (M, V)
        L.require("C02.R4", F, fn, "forwarded copy is transformed with the recipient's header version",
                  want, args[2] if len(args) > 2 else None, line=sink.lineno)
    # Tx frequency is the sender's, for the message's frame
    return S, M


def resolver(L, repo, meth, fixed_attr, pos, force_shape=False):
    ci, fd = repo.need_method("transceiver", "Transceiver", meth)
    F = rel("transceiver")
    L.unit(F)
    fn = "Transceiver." + meth
    L.fn(F, fn)
    if not force_shape:
        # decided by folding the getter (helpers included) over its complete state space: hopping configured or not;
        # the frequencies, the frame number and the resolved pair are opaque values the getter can only pass on
        from cmdfold import fold_freq_getter
        from consteval import Opaque
        fo = fold_freq_getter(repo, meth)
        if fo is not None:
            arg = (Opaque("FN"),)
            pair = (Opaque("RX@%r" % (arg,)), Opaque("TX@%r" % (arg,)))
            L.require("C02.R2", F, fn, "no hopping configured: the fixed frequency is returned, the resolver is not consulted",
                      (Opaque("self." + fixed_attr), []), fo["fixed"], line=fd.lineno)
            L.require("C02.R2", F, fn, "hopping configured: element %d (%s) of the pair resolved for the frame number given" % (
                pos, "Rx" if pos == 0 else "Tx"), (pair[pos], [arg]), fo["hopping"], line=fd.lineno)
            L.structural("C02.R2 shape of %s" % fn, resolver, L, repo, meth, fixed_attr, pos, True)
            return
    ps = params(fd)
    if len(ps) != 2:
        raise AnalysisError("%s signature changed" % fn)
    P = ps[1]
    cfg = CFG(fd)
    rets, implicit = returns(cfg)
    L.require("C02.R2", F, fn, "implicit fall-off returns", 0, len(implicit))
    L.floor("C02.R2", "return statements in " + fn, len(rets), 2)
    seen_fixed = seen_hop = 0
    for node, val in rets:
        lits = guard_literals(cfg, node)
        nofh = ("None is self.fh", True) in lits
        fh = ("None is self.fh", False) in lits
        other = {l for l in lits if l[0] != "None is self.fh"}
        L.ob("C02.R2", F, fn, "return `%s` depends only on `self.fh is None`" % canon(val) if val else "return",
             [], lit_fmt(other), not other and (nofh or fh), node.line)
        if val is None:
            L.ob("C02.R2", F, fn, "return without value", "a frequency", "None", False, node.line)
            continue
        if nofh:
            seen_fixed += 1
            L.require("C02.R2", F, fn, "fixed frequency returned when no hopping is configured",
                      "self." + fixed_attr, canon(val), line=node.line)
        elif fh:
            seen_hop += 1
            k, src = None, None
            if isinstance(val, ast.Name):
                defs = tuple_pos_def(fd, val.id)
                if len(defs) == 1:
                    k, src = defs[0][0], canon(defs[0][1])
            elif isinstance(val, ast.Subscript) and isinstance(val.slice, ast.Constant):
                k, src = val.slice.value, canon(val.value)
            if src is None:
                raise AnalysisError("%s: hopping return value unclassifiable: %s" % (fn, canon(val)))
            L.require("C02.R2", F, fn, "hopping frequency is element %d (%s) of the resolved pair" % (
                pos, "Rx" if pos == 0 else "Tx"), pos, k, line=node.line)
            L.require("C02.R2", F, fn, "pair is resolved for the frame number given",
                      "self.fh.resolve(%s)" % P, src, line=node.line)
    L.require("C02.R2", F, fn, "one fixed and one hopping return", (1, 1), (seen_fixed, seen_hop))


def r2_setfh_order(L, repo, force_shape=False):
    """SETFH <HSN> <MAIO> <RXF1> <TXF1> ...: decided by folding the whole command handler (helpers included) for
    witness commands with non-monotone channel lists: enable_fh() receives (HSN, MAIO, [(RXFn, TXFn) x 1000 ...]) in
    the received order. The structural proof below is the fallback for handlers that do not fold."""
    ci0, fd0 = repo.need_method("ctrl_if_trx", "CTRLInterfaceTRX", "parse_cmd")
    F0 = rel("ctrl_if_trx")
    L.unit(F0)
    L.fn(F0, "CTRLInterfaceTRX.parse_cmd")
    try:
        if force_shape:
            raise AnalysisError("structural attempt")
        from cmdfold import fold_parse_cmd
        wit = [["SETFH", "1", "2", "30", "40", "10", "20", "50", "5"],
               ["SETFH", "0", "0", "7", "8"],
               ["SETFH", "63", "5", "900", "945", "880", "925", "1", "2", "890", "935"],
               ["SETFH", "17", "63", "1000", "955", "0", "45", "10", "55"]]
        # the longest Mobile Allocation (64 channels) and one just past half of it: 33 and 64 <RXF> <TXF> pairs
        for npairs in (33, 64):
            w_ = ["SETFH", "5", "1"]
            for k in range(npairs):
                ch_ = (k * 37) % 124 + 1          # non-monotone ARFCN order
                w_ += [str(935000 + 200 * ch_), str(890000 + 200 * ch_)]
            wit.append(w_)
        for w in wit:
            f = fold_parse_cmd(repo, w)
            raw = [(int(w[i]) * 1000, int(w[i + 1]) * 1000) for i in range(3, len(w) - 1, 2)]
            want = [("enable_fh", (int(w[1]), int(w[2]), raw))]
            got = [(c_[0], (c_[1][0], c_[1][1], [tuple(p_) for p_ in c_[1][2]]) if len(c_[1]) == 3 else c_[1])
                   for c_ in f.calls if c_[0] == "enable_fh"]
            L.ob("C02.R2", F0, "CTRLInterfaceTRX.parse_cmd",
                 "CMD %s configures hopping with (HSN, MAIO, the received <RXFn> <TXFn> pairs in Hz, in the received order)" % (
                     " ".join(w) if len(w) < 16 else "SETFH %s %s <%d channel pairs>" % (w[1], w[2], (len(w) - 3) // 2)),
                 want, got, got == want and f.ret == 0, fd0.lineno)
        L.floor("C02.R2", "SETFH witness commands folded", len(wit), 4)
        L.structural("C02.R2 SETFH pairing by forward substitution of the handler's branch", r2_setfh_order, L, repo, True)
        return
    except AnalysisError as e:
        if not force_shape:
            L.extra["c02_setfh_fold"] = "not folded: %s" % str(e)[:100]
    from symfwd import Fwd
    ci, fd = repo.need_method("ctrl_if_trx", "CTRLInterfaceTRX", "parse_cmd")
    F = rel("ctrl_if_trx")
    L.unit(F)
    fn = "CTRLInterfaceTRX.parse_cmd"
    L.fn(F, fn)
    calls = find_calls(fd, attr="enable_fh")
    L.floor("C02.R2", "enable_fh call in parse_cmd", len(calls), 1)
    req = params(fd)[1]
    for c in calls:
        if len(c.args) != 3:
            raise AnalysisError("enable_fh call shape changed")
        # the SETFH branch: forward-substitute its straight-line definitions into the MA argument
        br = c
        while br is not None and not (isinstance(br, ast.If) and any("'SETFH'" in t for t, p in literals(br.test, True))):
            br = getattr(br, "_parent", None)
        if br is None:
            raise AnalysisError("SETFH branch not found around enable_fh()")
        env = {}
        for st in br.body:
            if st.lineno >= c.lineno:
                break
            if isinstance(st, ast.Assign) and len(st.targets) == 1 and isinstance(st.targets[0], ast.Name):
                from symfwd import subst_expr
                env[st.targets[0].id] = subst_expr(st.value, env)
        from symfwd import subst_expr
        ma = subst_expr(c.args[2], env)
        # (a) decide by folding: evaluate the Mobile Allocation expression for witness commands whose channel
        # lists are not monotone; the result must list the (Rx, Tx) pairs in the received order (a common unit
        # factor is allowed). A reordering (sorted, reversed, swapped pair elements) shows up as a different list.
        from consteval import Ev, Unknown, Raised
        witnesses = [["SETFH", "1", "2", "30", "40", "10", "20", "50", "5"],
                     ["SETFH", "0", "0", "7", "8"],
                     ["SETFH", "63", "5", "900", "945", "880", "925", "1", "2", "890", "935"]]
        folded = 0
        for w in witnesses:
            try:
                got = Ev(repo, ci.mod, env={req: list(w)}, self_cls=ci).ev(ma)
                got = [tuple(p_) for p_ in got]
            except (Unknown, Raised, TypeError, ValueError):
                break
            folded += 1
            raw = [(int(w[i]), int(w[i + 1])) for i in range(3, len(w) - 1, 2)]
            k = None
            flat = [x for p_ in got for x in p_]
            tot = sum(a + b for a, b in raw)
            if flat and all(isinstance(x, int) for x in flat) and sum(flat) % tot == 0:
                k = sum(flat) // tot
            exp = [(a * k, b * k) for a, b in raw] if k and k > 0 else raw
            L.ob("C02.R2", F, fn, "SETFH %s: Mobile Allocation = the received <RXFn> <TXFn> pairs, in the received order"
                 % " ".join(w[3:]), exp, got, got == exp, c.lineno)
        # (b) prove it for every channel list: unwrap list(...) and the identity comprehension [(a, b) for a, b in X]
        order = None      # which zip operand feeds pair element 0 / 1
        e = ma
        if isinstance(e, ast.Call) and canon(e.func) in ("list", "tuple") and len(e.args) == 1:
            e = e.args[0]
        if isinstance(e, ast.ListComp) and len(e.generators) == 1 and not e.generators[0].ifs and \
                isinstance(e.elt, ast.Tuple) and isinstance(e.generators[0].target, ast.Tuple) and \
                len(e.elt.elts) == 2 and len(e.generators[0].target.elts) == 2:
            tn = [canon(x) for x in e.generators[0].target.elts]
            en = [canon(x) for x in e.elt.elts]
            if sorted(tn) == sorted(en):
                order = [tn.index(x) for x in en]
                e = e.generators[0].iter
        elif isinstance(e, ast.Call) and canon(e.func) == "zip":
            order = [0, 1]
        if not (isinstance(e, ast.Call) and canon(e.func) == "zip" and len(e.args) == 2) or order is None:
            raise AnalysisError("SETFH: pairing expression unclassifiable: %s" % canon(ma)[:80])

        def sl(x):
            if isinstance(x, ast.Subscript) and isinstance(x.slice, ast.Slice):
                s_ = x.slice
                lo = 0 if s_.lower is None else (s_.lower.value if isinstance(s_.lower, ast.Constant) else "?")
                hi = None if s_.upper is None else "?"
                stp = 1 if s_.step is None else (s_.step.value if isinstance(s_.step, ast.Constant) else "?")
                return (lo, hi, stp), x.value
            return "?", None
        srcs = [sl(a) for a in e.args]
        bases = [canon(b) if b is not None else None for _, b in srcs]
        desc = [srcs[i][0] for i in order]
        L.require("C02.R2", F, fn,
                  "SETFH builds (Rx, Tx) pairs in the documented order <RXFn> <TXFn> (pair[0]=even, pair[1]=odd positions)",
                  [(0, None, 2), (1, None, 2)], desc, line=c.lineno)
        L.ob("C02.R2", F, fn, "both pair elements are taken from the same parsed list", "same list", bases, bases[0] == bases[1] and bases[0] is not None,
             c.lineno)
        base = srcs[0][1]
        ok_src = isinstance(base, ast.ListComp) and len(base.generators) == 1 and canon(base.generators[0].iter) == "%s[3:]" % req
        L.ob("C02.R2", F, fn, "SETFH channel list starts after HSN and MAIO (request[3:])",
             "%s[3:]" % req, canon(base.generators[0].iter) if isinstance(base, ast.ListComp) else canon(base) if base is not None else None,
             ok_src, c.lineno)


def r3_ticks(L, repo):
    ci, fd = repo.need_method("transceiver", "Transceiver", "clck_tick")
    F = rel("transceiver")
    fn = "Transceiver.clck_tick"
    L.unit(F)
    L.fn(F, fn)
    cfg = CFG(fd)
    n = 0
    for node in cfg.stmts():
        if node.kind not in ("stmt", "with", "loop", "cond"):
            continue
        a = node.ast
        head = a
        txt = None
        if isinstance(a, (ast.For, ast.While, ast.With, ast.If)):
            # only the header expression belongs to this node
            hdr = a.iter if isinstance(a, ast.For) else (a.test if isinstance(a, (ast.While, ast.If)) else a.items[0].context_expr)
            txt = canon(hdr)
        else:
            txt = canon(a)
        touches = "_tx_queue" in txt or ".forward_msg(" in txt
        if not touches:
            continue
        n += 1
        lits = guard_literals(cfg, node)
        L.ob("C02.R3", F, fn, "a transceiver that is not running neither consumes its queue nor transmits: `%s`" % txt[:60],
             "dominated by self.running", lit_fmt(lits), ("self.running", True) in lits, node.line)
    L.floor("C02.R3", "queue/forward statements in clck_tick", n, 3)
    # forward_msg is called with the ticking transceiver as the sender
    fcalls = find_calls(fd, attr="forward_msg")
    L.floor("C02.R3", "forward_msg call in clck_tick", len(fcalls), 1)
    for c in fcalls:
        L.require("C02.R3", F, fn, "sender passed to forward_msg is the ticking transceiver", "self",
                  canon(c.args[0]) if c.args else None, line=c.lineno)
    # dispatcher
    if _r3_dispatch_fold(L, repo):
        L.structural("C02.R3 shape of the tick dispatcher (one unconditional clck_tick call in a loop over the global list)",
                     _r3_dispatch_shape, L, repo)
    else:
        _r3_dispatch_shape(L, repo)


def _r3_dispatch_fold(L, repo):
    """Application.clck_handler folded for two consecutive ticks with three registered transceivers (their clck_tick as
    recording oracles): every transceiver of the global list ticks exactly once per frame, with the application's
    forwarder and the handler's frame number.  -> False when the handler does not fold"""
    from consteval import Ev, Opaque, Unknown, Raised
    ci, ch = repo.need_method("fake_trx", "Application", "clck_handler")
    F2 = rel("fake_trx")
    fn2 = "Application.clck_handler"
    P = params(ch)[1]
    T = [Opaque("TRX%d" % i) for i in range(3)]
    calls = []

    rv = [None]

    def rec(name):
        def h(a):
            calls.append((name, tuple(a)))
            return rv[0]
        return h
    e = Ev(repo, ci.mod, env={"self.trx_list.trx_list": list(T), "self.burst_fwd": Opaque("the forwarder"), P: 1325}, self_cls=ci)
    e.ignore_calls = ("log.", "logging.")
    e.hooks = {"TRX%d.clck_tick" % i: rec("TRX%d" % i) for i in range(3)}
    got = []
    # whatever a transceiver's tick returns (nothing today; a count or a flag tomorrow), the others still tick
    cases = [(1325, None), (1326, None), (1327, 0), (1328, 1), (1329, True)]
    try:
        for fn_, r_ in cases:
            e.env[P] = fn_
            rv[0] = r_
            del calls[:]
            e.run_block(ch.body)
            got.append(list(calls))
    except (Unknown, Raised):
        return False
    L.unit(F2)
    L.fn(F2, fn2)
    for (fn_, r_), g in zip(cases, got):
        L.require("C02.R3", F2, fn2, "tick %d with three registered transceivers%s: each ticks exactly once, with the forwarder and the frame number" % (
            fn_, "" if r_ is None else " whose clck_tick() returns %r" % (r_,)),
                  sorted(("TRX%d" % i, (Opaque("the forwarder"), fn_)) for i in range(3)), sorted(g), line=ch.lineno)
    return True


def _r3_dispatch_shape(L, repo):
    ci, ch = repo.need_method("fake_trx", "Application", "clck_handler")
    F2 = rel("fake_trx")
    fn2 = "Application.clck_handler"
    L.unit(F2)
    L.fn(F2, fn2)
    P = params(ch)[1]
    cfg2 = CFG(ch)
    calls = find_calls(ch, attr="clck_tick")
    L.floor("C02.R3", "clck_tick dispatch call", len(calls), 1)
    L.require("C02.R3", F2, fn2, "number of clck_tick dispatch calls", 1, len(calls))
    for c in calls:
        node = cfg2.node_of(c)
        loop = cfg2.in_loop(node)
        lits = guard_literals(cfg2, node)
        V = canon(c.func.value)
        want = {("for %s in self.trx_list.trx_list" % V, True)}
        L.require("C02.R3", F2, fn2, "every transceiver of the global list ticks unconditionally",
                  lit_fmt(want), lit_fmt(lits), line=c.lineno)
        L.require("C02.R3", F2, fn2, "tick is dispatched with the forwarder and the handler's frame number",
                  ["self.burst_fwd", P], [canon(a) for a in c.args], line=c.lineno)
        if loop is not None:
            brk = [n for n in ast.walk(loop) if isinstance(n, (ast.Break, ast.Return))]
            L.require("C02.R3", F2, fn2, "break/return inside the dispatch loop", 0, len(brk))


def r5_who_may_call(L, repo, tier):
    """Delivery (3-argument handle_data_msg) is invoked only by the
    forwarder; forward_msg only from clck_tick; the forwarder works on the
    global list."""
    n3 = []
    nf = []
    for m in repo.tk_modules():
        L.unit(m.rel)
        for c in calls_in(m.tree):
            f = c.func
            if isinstance(f, ast.Attribute) and f.attr == "handle_data_msg" and len(c.args) == 3 \
                    and not (isinstance(f.value, ast.Name) and f.value.id == "Transceiver"):
                n3.append((m, c))
            if isinstance(f, ast.Attribute) and f.attr == "forward_msg":
                nf.append((m, c))
    for m, c in n3:
        q = qualname(c)
        L.ob("C02.R5", m.rel, q, "3-argument delivery call `%s`" % canon(c)[:70],
             "only in BurstForwarder.forward_msg", q, q == "BurstForwarder.forward_msg", c.lineno)
    for m, c in nf:
        q = qualname(c)
        L.ob("C02.R5", m.rel, q, "forward_msg call `%s`" % canon(c)[:70],
             "only in Transceiver.clck_tick", q, q == "Transceiver.clck_tick", c.lineno)
    L.floor("C02.R5", "delivery + forward call sites", len(n3) + len(nf), 2)
    # no __eq__ defined anywhere (== on transceivers is identity)
    for m in repo.tk_modules():
        for n in ast.walk(m.tree):
            if isinstance(n, ast.FunctionDef) and n.name in ("__eq__", "__ne__"):
                cls = qualname(n)
                if "Transceiver" in cls or "TRX" in cls:
                    L.ob("C02.R5", m.rel, cls, "transceiver class overrides equality", "no __eq__", cls, False, n.lineno)
    # application wiring: forwarder built over the global list
    ci, init = repo.need_method("fake_trx", "Application", "__init__")
    F = rel("fake_trx")
    ctor = find_calls(init, name="BurstForwarder")
    L.floor("C02.R5", "BurstForwarder construction", len(ctor), 1)
    for c in ctor:
        L.require("C02.R5", F, "Application.__init__", "forwarder is built over the global transceiver list",
                  ["self.trx_list.trx_list"], [canon(a) for a in c.args], line=c.lineno)
    # TRXList keeps the list object it was given (shared, so later appends are seen)
    ci, tinit = repo.need_method("trx_list", "TRXList", "__init__")
    L.unit(rel("trx_list"))
    st = [n for n in ast.walk(tinit) if isinstance(n, ast.Assign) and
          canon(n.targets[0]) == "self.trx_list"]
    ok = len(st) == 1 and canon(st[0].value) in ("trx_list or []", "trx_list if trx_list is not None else []",
                                                  "trx_list if trx_list else []")
    L.ob("C02.R5", rel("trx_list"), "TRXList.__init__", "the list object passed in is kept (not copied)",
         "self.trx_list = trx_list or []", canon(st[0].value) if st else None, ok,
         st[0].lineno if st else None)


def r6_list_identity(L, repo):
    """R6: the forwarder looks for receivers in the list the application registers transceivers in. The list object
    handed to BurstForwarder(...) is an alias; delivery to 'every other running transceiver' needs that, from the
    hand-over on, the owner never REBINDS the attribute holding it (in-place append/remove keep the alias valid).
    Decided on the resolved program: attribute chain of the constructor argument, stores to each attribute of the
    chain, and - only if a rebinding store exists outside a constructor - whether the function holding it can run
    after the hand-over (CFG reachability inside Application.__init__, name-resolved call closure elsewhere)."""
    ci, init = repo.need_method("fake_trx", "Application", "__init__")
    F = rel("fake_trx")
    fn = "Application.__init__"
    L.unit(F)
    L.fn(F, fn)
    cons = [c for c in calls_in(init) if canon(c.func) in ("BurstForwarder", "burst_fwd.BurstForwarder")]
    L.floor("C02.R6", "BurstForwarder construction in Application.__init__", len(cons), 1)
    cfg = CFG(init)
    mods = repo.tk_modules()
    # name-resolved call graph over the toolkit: function -> names it calls
    funcs = {}
    for m in mods:
        for c in m.classes.values():
            for mn, fd in c.methods.items():
                funcs.setdefault(mn, []).append((m, c, fd))
        for fname, fd in m.funcs.items():
            funcs.setdefault(fname, []).append((m, None, fd))

    def callee_names(node):
        out = set()
        for c in calls_in(node):
            f = c.func
            out.add(f.attr if isinstance(f, ast.Attribute) else f.id if isinstance(f, ast.Name) else None)
        out.discard(None)
        return out

    for con in cons:
        if not con.args:
            # the forwarder starts with its own list: registration must go through the forwarder then (not this design)
            raise AnalysisError("BurstForwarder() is built without a transceiver list: hand-over not recognised")
        arg = con.args[0]
        chain = []
        e = arg
        while isinstance(e, ast.Attribute):
            chain.append(e.attr)
            e = e.value
        if not (isinstance(e, ast.Name) and e.id == "self") or not chain:
            raise AnalysisError("BurstForwarder(%s): argument is not an attribute chain on self" % canon(arg))
        chain.reverse()
        cnode = cfg.node_of(con)
        # functions that may run after the hand-over
        after = set()
        for node in cfg.stmts():
            if node is not cnode and cfg.reachable(cnode, node) and node.kind in ("stmt", "cond", "loop", "with"):
                a = node.ast
                hdr = a.iter if isinstance(a, ast.For) else a.test if isinstance(a, (ast.If, ast.While)) else \
                    a.items[0].context_expr if isinstance(a, ast.With) else a
                after |= callee_names(hdr)
        before_only = set()
        for node in cfg.stmts():
            if node.kind in ("stmt", "cond", "loop", "with") and not cfg.reachable(cnode, node):
                a = node.ast
                hdr = a.iter if isinstance(a, ast.For) else a.test if isinstance(a, (ast.If, ast.While)) else \
                    a.items[0].context_expr if isinstance(a, ast.With) else a
                before_only |= callee_names(hdr)
        # every other entry point of the application runs after construction
        for mn, fd in ci.methods.items():
            if mn != "__init__" and mn not in before_only:
                after.add(mn)
        # closure
        work, seen = list(after), set()
        while work:
            n_ = work.pop()
            if n_ in seen:
                continue
            seen.add(n_)
            for m_, c_, fd_ in funcs.get(n_, []):
                if fd_.name == "__init__":
                    continue
                for x in callee_names(fd_):
                    if x not in seen:
                        work.append(x)
        after = seen
        # walk the chain: owner class of each attribute
        owner = ci
        for depth, attr in enumerate(chain):
            if owner is None:
                raise AnalysisError("BurstForwarder(%s): owner class of `.%s` does not resolve" % (canon(arg), attr))
            rebinding = []
            for c_ in repo.mro(owner):
                for mn, fd in c_.methods.items():
                    for n_, k in attr_accesses(fd, attr):
                        if k in ("store", "del") and isinstance(n_.value, ast.Name) and n_.value.id == "self":
                            rebinding.append((c_, mn, fd, n_))
            # stores from outside the class (obj.attr = ...), e.g. in the application
            for m in mods:
                for n_, k in attr_accesses(m.tree, attr):
                    if k in ("store", "del") and not (isinstance(n_.value, ast.Name) and n_.value.id == "self"):
                        rebinding.append((None, qualname(n_), None, n_))
            bad = []
            for c_, mn, fd, n_ in rebinding:
                if c_ is owner and owner is ci and mn == "__init__":
                    # the application's own constructor: only stores reachable AFTER the hand-over matter
                    sn = cfg.node_of(n_)
                    if sn is not None and cfg.reachable(cnode, sn) and sn is not cnode:
                        bad.append("%s.%s" % (c_.name, mn))
                    continue
                if c_ is not None and mn == "__init__":
                    continue            # construction of the owner itself
                if c_ is None:
                    # foreign store: which function holds it?
                    holder = mn.split(".")[-1]
                    if holder in after or holder == "<module>":
                        bad.append(mn)
                    elif holder == "__init__" and "Application" in mn:
                        sn = cfg.node_of(n_)
                        if sn is not None and cfg.reachable(cnode, sn):
                            bad.append(mn)
                    continue
                if mn in after:
                    bad.append("%s.%s" % (c_.name, mn))
            L.ob("C02.R6", F, fn,
                 "the list handed to the forwarder (`%s`) stays the list transceivers are registered in: `.%s` of %s is not "
                 "rebound by code that can run after the hand-over" % (canon(arg), attr, owner.name),
                 [], sorted(set(bad)), not bad, con.lineno)
            # next owner: class of self.<attr> from the constructor of the current owner
            nxt = None
            c0, i0 = repo.find_method(owner, "__init__")
            if i0 is not None:
                for n_ in ast.walk(i0):
                    if isinstance(n_, ast.Assign) and any(isinstance(t, ast.Attribute) and t.attr == attr and
                                                          canon(t.value) == "self" for t in n_.targets):
                        v = n_.value
                        if isinstance(v, ast.Call):
                            nm = v.func.attr if isinstance(v.func, ast.Attribute) else v.func.id if isinstance(v.func, ast.Name) else None
                            if nm:
                                nxt = repo.cls(c0.mod, nm)
            owner = nxt
            if owner is None and depth + 1 < len(chain):
                raise AnalysisError("BurstForwarder(%s): class of `.%s` does not resolve" % (canon(arg), attr))
        # the forwarder keeps the object it was given (no copy in its constructor)
        fci = repo.need_class("burst_fwd", "BurstForwarder")
        c1, i1 = repo.find_method(fci, "__init__")
        if i1 is None:
            raise AnalysisError("BurstForwarder.__init__ does not resolve")
        p0 = params(i1)[1] if len(params(i1)) > 1 else None
        keeps = []
        for n_ in ast.walk(i1):
            if isinstance(n_, ast.Assign) and any(isinstance(t, ast.Attribute) and canon(t.value) == "self" for t in n_.targets):
                v = n_.value
                vals = v.values if isinstance(v, ast.BoolOp) else [v.body, v.orelse] if isinstance(v, ast.IfExp) else [v]
                if any(isinstance(x, ast.Name) and x.id == p0 for x in vals):
                    keeps.append(canon(n_)[:50])
        # (subclass constructors passing the argument on are followed one level)
        if not keeps:
            for c in calls_in(i1):
                if any(isinstance(a, ast.Name) and a.id == p0 for a in c.args) and isinstance(c.func, ast.Attribute) \
                        and c.func.attr == "__init__":
                    keeps.append(canon(c)[:50])
        L.ob("C02.R6", rel(c1.mod.name), "%s.__init__" % c1.name,
             "the forwarder stores the list object it is given (no copy)", ">=1 aliasing store", keeps, bool(keeps), i1.lineno)


def r2_enable_fh(L, repo):
    """R2 (frequency in use = the last ACCEPTED configuration): Transceiver.enable_fh() installs the new hopping
    parameters when HoppingParams accepts them, and leaves the transceiver's hopping configuration untouched when the
    constructor refuses them (ValueError, answered -1 by the SETFH handler).  Folded over both outcomes of the
    constructor and both prior states (hopping configured or not)."""
    from consteval import Ev, Unknown, Raised, Opaque
    ci, fd = repo.need_method("transceiver", "Transceiver", "enable_fh")
    F = rel("transceiver")
    fn = "Transceiver.enable_fh"
    L.fn(F, fn)
    va = fd.args.vararg.arg if fd.args.vararg else None
    ps = params(fd)
    for prior in (None, Opaque("OLD")):
        for accept in (True, False):
            env = {"self.fh": prior, "self.running": True}
            # a well-formed SETFH argument triple (the handler passes HSN, MAIO and the list of (Rx, Tx) pairs)
            good = (5, 1, [(935000000, 890000000), (935200000, 890200000), (936000000, 891000000)])
            if va:
                env[va] = good
            for p_, v_ in zip(ps[1:], good):
                env[p_] = v_
            for p_ in ps[1 + len(good):]:
                env[p_] = Opaque(p_)
            made = []

            def mk(a, accept=accept, made=made):
                made.append(tuple(a))
                if not accept:
                    raise Raised("ValueError")
                return Opaque("NEW")
            e = Ev(repo, ci.mod, env=env, self_cls=ci)
            e.ignore_calls = ("log.", "logging.")
            e.hooks = {"HoppingParams": mk}
            raised = None
            try:
                e.run_block(fd.body)
            except Raised as ex:
                raised = ex.cls
            except Unknown as ex:
                raise AnalysisError("%s does not fold: %s" % (fn, ex))
            want = (Opaque("NEW"), None) if accept else (prior, "ValueError")
            L.require("C02.R2", F, fn, "hopping parameters %s by HoppingParams, hopping %s before: the configuration in use afterwards" % (
                "accepted" if accept else "refused", "configured" if prior is not None else "not configured"), want, (e.env.get("self.fh"), raised),
                line=fd.lineno)


def r8_setfh_applied(L, repo):
    """R8 (the frequencies in use are those of the last accepted SETFH): a SETFH whose parameters differ from the
    installed ones - in HSN, in MAIO, or in a single channel of the list - installs them.  A handler that skips
    enable_fh() for parameters it takes to be "the same" is sound only if its notion of sameness covers all three.
    Decided by folding the command handler (objects modelled: the installed configuration is the object the class's own
    constructor builds, comparisons go through the class's own __eq__) for each single-difference request."""
    from cmdfold import fold_parse_cmd
    from consteval import Ev, Unknown, Raised, Instance
    F0 = rel("ctrl_if_trx")
    fn = "CTRLInterfaceTRX.parse_cmd"
    hci = repo.need_class("gsm_shared", "HoppingParams")
    c_i, init = repo.need_method("gsm_shared", "HoppingParams", "__init__")

    def build(hsn, maio, ma):
        e = Ev(repo, hci.mod, env={}, self_cls=hci)
        e.ignore_calls = ("log.", "logging.")
        for k_, v_ in e._bindargs(init, ["<self>", hsn, maio, ma], {}):
            if k_ != "self":
                e.env[k_] = v_
        e.run_block(init.body)
        return Instance(hci, label="installed", attrs={k[5:]: v for k, v in e.env.items() if isinstance(k, str) and k.startswith("self.") and k.count(".") == 1})
    base = (5, 1, [(935000, 890000), (935200, 890200)])
    variants = {"the same parameters": base, "HSN": (6, 1, base[2]), "MAIO": (5, 0, base[2]),
                "one channel of the list": (5, 1, [(935000, 890000), (936000, 891000)]),
                "the order of the channels": (5, 1, [(935200, 890200), (935000, 890000)])}
    try:
        installed = build(base[0], base[1], [(r * 1000, t * 1000) for r, t in base[2]])
    except (Unknown, Raised) as ex:
        raise AnalysisError("HoppingParams.__init__ does not fold: %s" % ex)
    n = 0
    for what, (hsn, maio, ma) in variants.items():
        req = ["SETFH", str(hsn), str(maio)] + [str(x) for pair in ma for x in pair]
        f = fold_parse_cmd(repo, req, {"fh": installed, "running": False}, model_objects=True)
        applied = [c_ for c_ in f.calls if c_[0] == "enable_fh"]
        n += 1
        if what == "the same parameters":
            continue        # re-installing or skipping identical parameters are both fine
        L.ob("C02.R8", F0, fn, "SETFH that differs from the installed configuration in %s installs the new parameters" % what,
             "enable_fh(%d, %d, ...)" % (hsn, maio), [c_[1][:2] for c_ in applied] or "enable_fh is not called (status %r)" % (f.ret,),
             len(applied) == 1 and f.ret == 0, None)
    L.floor("C02.R8", "single-difference SETFH requests folded", n, 5)
    # the same question one level down: enable_fh() itself must install what it is given (a "nothing to reconfigure"
    # shortcut inside it is judged by the same single-difference requests)
    tci = repo.need_class("transceiver", "Transceiver")
    c_e, efh = repo.find_method(tci, "enable_fh")
    if efh is None:
        raise AnalysisError("Transceiver.enable_fh vanished")
    FT_ = rel("transceiver")
    m = 0
    for what, (hsn, maio, ma) in variants.items():
        if what == "the same parameters":
            continue
        ma_hz = [(r * 1000, t * 1000) for r, t in ma]
        e = Ev(repo, c_e.mod, env={"self.fh": installed, "self.running": False}, self_cls=tci)
        e.ignore_calls = ("log.", "logging.")
        e.model_objects = True
        try:
            e.call_func(efh, c_e.mod, e._bindargs(efh, ["<self>", hsn, maio, ma_hz], {}), self_cls=tci, writeback=True)
        except (Unknown, Raised) as ex:
            raise AnalysisError("Transceiver.enable_fh does not fold with modelled objects: %s" % ex)
        got = e.env.get("self.fh")
        desc = None
        if isinstance(got, Instance) and got.attrs is not None:
            desc = (got.attrs.get("hsn"), got.attrs.get("maio"), [tuple(x) for x in got.attrs.get("ma", [])] if isinstance(got.attrs.get("ma"), (list, tuple)) else got.attrs.get("ma"))
        m += 1
        L.ob("C02.R8", FT_, "Transceiver.enable_fh", "enable_fh() with parameters that differ from the installed ones in %s leaves the NEW parameters installed" % what,
             (hsn, maio, ma_hz), desc, desc == (hsn, maio, ma_hz), efh.lineno)
    L.floor("C02.R8", "single-difference enable_fh() calls folded", m, 4)


def run(L, tier):
    repo = Repo(L.repo)
    L.stage(r1_forward_msg, L, repo)
    L.stage(resolver, L, repo, "get_rx_freq", "_rx_freq", 0)
    L.stage(resolver, L, repo, "get_tx_freq", "_tx_freq", 1)
    L.stage(r2_setfh_order, L, repo)
    L.stage(r2_enable_fh, L, repo)
    L.stage(r8_setfh_applied, L, repo)
    L.stage(r3_ticks, L, repo)
    L.stage(r5_who_may_call, L, repo, tier)
    L.stage(r6_list_identity, L, repo)
    from pyutil import instance_state
    L.stage(instance_state, L, repo, "C02.R7", "trx_list", "TRXList", "each transceiver list is its own list")
