# C09 -- clock source: consecutive frame numbers, one per frame, no
# accumulated drift.

import ast

from report import AnalysisError
from pyfront import (Repo, CFG, canon, guard_literals, literals, qualname,
                     calls_in, attr_accesses, _Subst)
from pyutil import params, deep_subst, find_calls, lit_fmt, rel, name_of, branch_subst, fmt_norm
from consteval import Ev, fold, Unknown, Raised
import exprnf as X

EXPLANATION = (
    "Structural analysis of CLCKGen: expression normal form of the frame "
    "counter update ((clck_src + 1) mod GSM_HYPERFRAME, folded to 2715648), "
    "guard literals of the indication loop and of the handler call, "
    "def-use classification of the worker loop's deadline variable (advanced "
    "by a loop-invariant tick each iteration, re-based on the clock only under "
    "the overrun test, wait argument = deadline - now), folding of the tick "
    "constant with Python float semantics, and statement-order rules for "
    "start()/stop().")
ASSUMPTIONS = [
    "actual tick times under arbitrary handler durations need a clock and are not decided; the absolute-deadline structure is",
    "threading.Event.wait(t) returns True iff the event was set; time.monotonic_ns is monotonic",
]
F = rel("clck_gen")


def r1_counter(L, repo):
    ci, fd = repo.need_method("clck_gen", "CLCKGen", "send_clck_ind")
    fn = "CLCKGen.send_clck_ind"
    L.unit(F)
    L.fn(F, fn)
    mod = repo.mod("clck_gen")
    cfg = CFG(fd)
    H = fold(repo, repo.mod("gsm_shared"), ast.parse("GSM_HYPERFRAME", mode="eval").body)
    L.require("C09.R1", rel("gsm_shared"), "<module>", "GSM_HYPERFRAME = 2048 * 26 * 51", 2715648, H)
    L.unit(rel("gsm_shared"))
    stores = [n for n in ast.walk(fd) if isinstance(n, (ast.Assign, ast.AugAssign)) and
              canon(n.targets[0] if isinstance(n, ast.Assign) else n.target) == "self.clck_src"]
    L.require("C09.R1", F, fn, "number of frame counter updates per tick", 1, len(stores))

    def const(e):
        try:
            v = Ev(repo, mod, self_cls=ci).ev(e)
            return v if isinstance(v, int) and not isinstance(v, bool) else None
        except (Unknown, Raised):
            return None
    for s in stores:
        if isinstance(s, ast.AugAssign):
            val = ast.BinOp(left=s.target, op=s.op, right=s.value)
        else:
            val = s.value
        try:
            t = X.PyLower(const=const).lower(val)
        except AnalysisError:
            t = ("?",)
        want = X.mod(X.add(X.V("self.clck_src"), X.C(1)), X.C(2715648))
        L.require("C09.R1", F, fn, "frame counter advances by exactly one modulo the hyperframe",
                  X.show(want), X.show(t) if t != ("?",) else canon(val), line=s.lineno)
        L.require("C09.R1", F, fn, "the increment is unconditional", [], lit_fmt(guard_literals(cfg, cfg.node_of(s))),
                  line=s.lineno)
    # handler call
    calls = [c for c in calls_in(fd) if canon(c.func) == "self.clck_handler"]
    L.require("C09.R1", F, fn, "number of handler invocations per tick", 1, len(calls))
    for c in calls:
        node = cfg.node_of(c)
        L.require("C09.R1", F, fn, "handler is called with the current frame number",
                  ["self.clck_src"], [canon(a) for a in c.args], line=c.lineno)
        L.require("C09.R1", F, fn, "handler is called on every tick (only condition: a handler is installed)",
                  lit_fmt({("None is self.clck_handler", False)}), lit_fmt(guard_literals(cfg, node)), line=c.lineno)
        for s in stores:
            sn = cfg.node_of(s)
            L.ob("C09.R1", F, fn, "handler sees the frame number before it is advanced", "call not reachable from the increment",
                 "reachable" if cfg.reachable(sn, node) else "unreachable", not cfg.reachable(sn, node), c.lineno)
            L.ob("C09.R1", F, fn, "increment happens on every path after the handler", "every path from the call passes the increment",
                 "", cfg.must_pass(node, [sn]), s.lineno)
    return H


def tick_fold(L, repo):
    """One tick (send_clck_ind) folded on witnesses: frame counter at 0, 1, next to and on multiples of the indication
    period, at the last multiple before and on the last frame of the hyperframe; periods 102, 51, 7, 1; no / one / three
    attached links (recording oracles); with and without a frame handler.  Required: the handler is called exactly once
    with the tick's frame number; every link receives exactly one 'IND CLOCK <fn>' + NUL iff the frame number is a
    multiple of the period, nothing otherwise; afterwards the counter is (fn + 1) mod hyperframe.
    -> False when the method does not fold (the shape rules decide then)"""
    from consteval import Opaque
    ci, fd = repo.need_method("clck_gen", "CLCKGen", "send_clck_ind")
    fn = "CLCKGen.send_clck_ind"
    H = fold(repo, repo.mod("gsm_shared"), ast.parse("GSM_HYPERFRAME", mode="eval").body)
    rows = []
    try:
        for P in (102, 51, 7, 1):
            srcs = sorted({0, 1, P - 1, P, P + 1, 2 * P, H - 1, (H - 1) - ((H - 1) % P)} & set(range(H)))
            for src in srcs:
                for nl in (0, 1, 3, -3):
                    # (-3: three links whose send() reports the number of octets written - whatever a link's send() returns,
                    # the others still get the indication)
                    sendret = None if nl >= 0 else 16
                    nl = abs(nl)
                    for handler in (True, False):
                        links = [Opaque("LINK%d" % i) for i in range(nl)]
                        sent, hcalls = [], []
                        e = Ev(repo, ci.mod, env={}, self_cls=ci)
                        e.ignore_calls = ("log.", "logging.")
                        # the object as its constructor leaves it (whatever bookkeeping attributes it has), started at `src`
                        try:
                            c0, i0 = repo.find_method(ci, "__init__")
                            e.hooks = {"threading.Event": lambda a: Opaque("EVENT"), "Event": lambda a: Opaque("EVENT")}
                            e.call_func(i0, c0.mod, e._bindargs(i0, ["<self>", list(links), src, P], {}), self_cls=ci, writeback=True)
                        except (Unknown, Raised, TypeError, KeyError):
                            e.env.clear()
                        e.env.update({"self.clck_src": src, "self.ind_period": P, "self.clck_links": list(links),
                                      "self.clck_handler": Opaque("HANDLER") if handler else None})
                        e.hooks = {"HANDLER": lambda a, hc=hcalls: hc.append(tuple(a)), "self.clck_handler": lambda a, hc=hcalls: hc.append(tuple(a))}
                        for i in range(nl):
                            e.hooks["LINK%d.send" % i] = (lambda a, i=i, sn=sent, r_=sendret: (sn.append((i, a[0] if a else None)), r_)[1])
                        e.run_block(fd.body)
                        rows.append((P, src, nl, handler, sent, hcalls, e.env.get("self.clck_src")))
    except (Unknown, Raised):
        return False
    L.fn(F, fn)
    bad_ind, bad_h, bad_c = [], [], []
    for P, src, nl, handler, sent, hcalls, after in rows:
        pay = "IND CLOCK %u\0" % src
        want = [(i, pay) for i in range(nl)] if src % P == 0 else []
        got = sorted((i, p_.decode("latin-1") if isinstance(p_, (bytes, bytearray)) else p_) for i, p_ in sent)
        if got != want:
            bad_ind.append("period %d, frame %d, %d links: sent %r" % (P, src, nl, got[:3]))
        if hcalls != ([(src,)] if handler else []):
            bad_h.append("frame %d: handler calls %r" % (src, hcalls[:3]))
        if after != (src + 1) % H:
            bad_c.append("frame %d -> %r" % (src, after))
    L.ob("C09.R2", F, fn, "tick fold: every attached link gets exactly one 'IND CLOCK <fn>' + NUL iff the frame number is a multiple of the period (%d witnesses)" % len(rows),
         [], bad_ind[:3], not bad_ind, fd.lineno)
    L.ob("C09.R1", F, fn, "tick fold: the frame handler is called exactly once per tick with the tick's frame number", [], bad_h[:3], not bad_h, fd.lineno)
    L.ob("C09.R1", F, fn, "tick fold: the frame counter advances by one modulo the hyperframe", [], bad_c[:3], not bad_c, fd.lineno)
    L.floor("C09.R2", "tick witnesses folded", len(rows), 100)
    return True


def life_fold(L, repo):
    """The generator's life on ONE object, folded: constructor (start frame S, period P, one link), start(), ticks, stop(),
    start() again, ticks - for (S, P) in (0, 51), (10, 51), (2715640, 7).  Thread and event objects are oracles.  Required: after
    every start() the first tick carries frame S and the ticks count up from there; in both runs the indications go out at
    exactly the multiples of P (state kept between ticks - a countdown, a cached payload - that start() does not re-arm shows
    up in the second run).  -> False when the methods leave the evaluator's vocabulary."""
    from consteval import Opaque
    ci, init = repo.need_method("clck_gen", "CLCKGen", "__init__")
    c1, start = repo.need_method("clck_gen", "CLCKGen", "start")
    c2, stop = repo.need_method("clck_gen", "CLCKGen", "stop")
    c3, tick = repo.need_method("clck_gen", "CLCKGen", "send_clck_ind")
    H = fold(repo, repo.mod("gsm_shared"), ast.parse("GSM_HYPERFRAME", mode="eval").body)
    rows = []
    try:
        for S, P, n1, n2 in ((0, 51, 70, 60), (10, 51, 70, 120), (H - 8, 7, 20, 20)):
            sent, frames = [], []
            e = Ev(repo, ci.mod, env={}, self_cls=ci)
            e.ignore_calls = ("log.", "logging.")

            def thr(a, k=None):
                return Opaque("THREAD")
            thr.wants_kw = True
            e.hooks = {"threading.Thread": thr, "Thread": thr, "threading.Event": lambda a: Opaque("EVENT"), "Event": lambda a: Opaque("EVENT"),
                       "self._thread.start": lambda a: None, "self._thread.join": lambda a: None, "self._thread.is_alive": lambda a: True,
                       "self._breaker.set": lambda a: None, "self._breaker.clear": lambda a: None, "self._breaker.is_set": lambda a: False,
                       "LINK.send": lambda a, sn=sent: sn.append(a[0] if a else None),
                       "HANDLER": lambda a, fr=frames: fr.append(a[0] if a else None),
                       "self.clck_handler": lambda a, fr=frames: fr.append(a[0] if a else None)}
            e.call_func(init, ci.mod, e._bindargs(init, ["<self>", [Opaque("LINK")], S, P], {}), self_cls=ci, writeback=True)
            e.env["self.clck_handler"] = Opaque("HANDLER")
            runs = []
            for n in (n1, n2):
                del sent[:]
                del frames[:]
                e.call_func(start, ci.mod, [("self", "<self>")], self_cls=ci, writeback=True)
                for _ in range(n):
                    e.call_func(tick, ci.mod, [("self", "<self>")], self_cls=ci, writeback=True)
                e.call_func(stop, ci.mod, [("self", "<self>")], self_cls=ci, writeback=True)
                runs.append((list(frames), [p_.decode("latin-1") if isinstance(p_, (bytes, bytearray)) else p_ for p_ in sent]))
            rows.append((S, P, (n1, n2), runs))
    except (Unknown, Raised):
        return False
    fn = "CLCKGen"
    L.fn(F, "CLCKGen.start")
    for S, P, ns, runs in rows:
        for k, (n, (frames, sent)) in enumerate(zip(ns, runs)):
            wf = [(S + i) % H for i in range(n)]
            ws = ["IND CLOCK %u\0" % f for f in wf if f % P == 0]
            which = "first run" if k == 0 else "after stop() and start() again"
            L.ob("C09.R4", F, fn, "life of one generator (start frame %d, period %d), %s: the handler sees the frames counted from the start frame" % (S, P, which),
                 "%d frames from %d" % (n, S), "as required" if frames == wf else "frames %s..." % frames[:4], frames == wf, start.lineno)
            L.ob("C09.R2", F, fn, "life of one generator (start frame %d, period %d), %s: indications exactly at the multiples of the period" % (S, P, which),
                 ws[:4], sent[:4] if sent != ws else ws[:4], sent == ws, tick.lineno)
    return True


def r2_indication(L, repo):
    ci, fd = repo.need_method("clck_gen", "CLCKGen", "send_clck_ind")
    fn = "CLCKGen.send_clck_ind"
    cfg = CFG(fd)
    subst = deep_subst(fd)
    sends = [c for c in calls_in(fd) if isinstance(c.func, ast.Attribute) and c.func.attr == "send"]
    L.require("C09.R2", F, fn, "number of indication send sites", 1, len(sends))
    for c in sends:
        node = cfg.node_of(c)
        lp = cfg.in_loop(node)
        if lp is None:
            L.ob("C09.R2", F, fn, "indication goes to every attached link", "loop over self.clck_links", "no loop", False, c.lineno)
            continue
        V = canon(lp.target)
        lits = guard_literals(cfg, node)
        want = {("for %s in self.clck_links" % V, True), ("0 == self.clck_src % self.ind_period", True)}
        L.require("C09.R2", F, fn, "indication is sent to every link exactly at frames divisible by the period",
                  lit_fmt(want), lit_fmt(lits), line=c.lineno)
        L.require("C09.R2", F, fn, "send goes through the loop's link", V, canon(c.func.value), line=c.lineno)
        pe = c.args[0] if c.args else None
        if isinstance(pe, ast.Name) and pe.id in subst:
            pe = subst[pe.id]
        L.require("C09.R2", F, fn, "indication payload 'IND CLOCK <fn>' + NUL with the current frame number",
                  ("IND CLOCK {}\x00", ["self.clck_src"]), fmt_norm(pe) if pe is not None else None, line=c.lineno)
        brk = [n for n in ast.walk(lp) if isinstance(n, (ast.Break, ast.Continue, ast.Return))]
        L.require("C09.R2", F, fn, "break/continue inside the link loop", 0, len(brk))
        # the counter is not advanced before the indication
        for s in ast.walk(fd):
            if isinstance(s, (ast.Assign, ast.AugAssign)) and canon(s.targets[0] if isinstance(s, ast.Assign) else s.target) == "self.clck_src":
                L.ob("C09.R2", F, fn, "indication carries the frame number of this tick (sent before the increment)",
                     "send not reachable from the increment", "", not cfg.reachable(cfg.node_of(s), node), c.lineno)


def is_now(e):
    return isinstance(e, ast.Call) and canon(e.func) in ("time.monotonic_ns", "time.monotonic", "monotonic_ns")


def r3_paths(L, repo):
    """R3 by path-sensitive forward substitution of ONE iteration of the worker loop (a symbolic transformer of the
    loop-carried deadline): however the statements are arranged or moved into helpers, every path through the body
    must be one of
        normal:   (D + TICK) - now() >= 0 :  D' = D + TICK,  wait((D + TICK - now()) x unit), then one tick
        overrun:  (D + TICK) - now() <  0 :  D' = now(),     wait(0), then one tick
    with the loop left exactly when the wait reports the breaker, D = now() before the loop, TICK defined once before
    the loop from the frame period (4.615 ms +- 1 us) and the wait timeout scaled to seconds."""
    from symfwd import Fwd
    from pyfront import clone as _cl
    ci, fd = repo.need_method("clck_gen", "CLCKGen", "_worker")
    fn = "CLCKGen._worker"
    L.fn(F, fn)
    mod = repo.mod("clck_gen")
    from pyutil import unalias_callables
    un = unalias_callables(fd)
    if un:
        L.extra["c09_unaliased_callables"] = un
    loops = [n for n in fd.body if isinstance(n, ast.While)]
    if len(loops) != 1:
        raise AnalysisError("_worker: expected one top-level worker loop, found %d" % len(loops))
    loop = loops[0]
    li = fd.body.index(loop)
    pre = [st for st in fd.body[:li] if not isinstance(st, (ast.If, ast.Try))]     # scheduler priority set-up is not clock code
    fw0 = Fwd()
    env0 = fw0.run(pre) or {}
    NOW = ("time.monotonic_ns()", "time.monotonic()", "monotonic_ns()")
    # one iteration, from a state where every loop-carried local is its own symbol
    carried = sorted({n.id for n in ast.walk(loop) if isinstance(n, ast.Name) and isinstance(n.ctx, ast.Store)})
    fw = Fwd(split=True)
    fw.run(loop.body, {})
    paths = [("next", c, e) for c, e in fw.ends] + [("break" if k == "break" else "continue", c, None) for c, k in fw.loopctl] + \
            [("return", c, None) for c, r in fw.returns]
    if not fw.ends:
        raise AnalysisError("_worker: no path completes an iteration")

    def lin(txt_or_ast):
        e = ast.parse(txt_or_ast, mode="eval").body if isinstance(txt_or_ast, str) else txt_or_ast
        try:
            return X.linear(X.PyLower().lower(e))
        except AnalysisError:
            return None
    # the wait literal
    waits = set()
    for kind, conds, env in paths:
        for t, pol in conds:
            if t.startswith("self._breaker.wait("):
                waits.add(t)
    # the deadline: the carried local whose new value on some completed path is itself + a loop-invariant term
    cand = {}
    for kind, conds, env in paths:
        if kind != "next":
            continue
        for v in carried:
            if v in env:
                l_ = lin(env[v])
                if l_ is not None and l_[0].get(v) == 1 and l_[1] == 0 and len(l_[0]) == 2:
                    other = [k for k in l_[0] if k != v][0]
                    if l_[0][other] == 1:
                        cand.setdefault(v, set()).add(other)
    if len(cand) != 1 or len(list(cand.values())[0]) != 1:
        raise AnalysisError("_worker: loop-carried deadline not identified (candidates %s)" % sorted(cand))
    D = list(cand)[0]
    TICK = list(cand[D])[0]
    L.ob("C09.R3", F, fn, "deadline `%s` starts at the current monotonic time" % D, "now()", canon(env0[D]) if D in env0 else None,
         D in env0 and canon(env0[D]) in NOW, loop.lineno)
    tick_ok = TICK.isidentifier() and TICK in env0 and TICK not in carried
    L.ob("C09.R3", F, fn, "the deadline advances by a loop-invariant tick (`%s`, defined before the loop), not by time measured after the handler" % TICK,
         "defined once before the loop", "carried" if TICK in carried else ("missing" if TICK not in env0 else "ok"), tick_ok, loop.lineno)
    want_dt = {D: 1, TICK: 1}
    n_norm = n_ovr = 0
    for kind, conds, env in paths:
        cset = dict(conds)
        # overrun literal: `<remaining> < 0` with remaining = D + TICK - now()
        ovr = None
        extra = []
        wait_l = None
        for t, pol in conds:
            if t in waits:
                wait_l = pol
                continue
            if t == "1":
                continue
            e_ = ast.parse(t, mode="eval").body
            rec = False
            if isinstance(e_, ast.Compare) and len(e_.ops) == 1 and isinstance(e_.ops[0], ast.Lt):
                d_ = lin(ast.BinOp(left=e_.left, op=ast.Sub(), right=e_.comparators[0]))
                if d_ is not None and d_[1] == 0:
                    co = dict(d_[0])
                    nowk = [k for k in co if k in NOW]
                    if len(nowk) == 1 and co.pop(nowk[0]) == -1 and co == want_dt:
                        ovr = pol
                        rec = True
            if not rec:
                extra.append((t, pol))
        rowtxt = "overrun=%s wait=%s" % (ovr, wait_l)
        L.ob("C09.R3", F, fn, "path through one iteration depends only on the overrun test and the breaker wait [%s, %s]" % (kind, rowtxt),
             [], extra[:3], not extra, loop.lineno)
        if ovr is None:
            L.ob("C09.R3", F, fn, "every iteration compares the advanced deadline with the clock [%s]" % kind,
                 "(%s + %s) - now() < 0 tested" % (D, TICK), lit_fmt(conds), False, loop.lineno)
            continue
        # wait timeout
        wtxt = [t for t, p_ in conds if t in waits]
        warg = ast.parse(wtxt[0], mode="eval").body.args[0] if wtxt else None
        if kind == "next":
            L.require("C09.R3", F, fn, "an iteration completes (and ticks) only when the wait expired without the breaker [%s]" % rowtxt,
                      False, wait_l, line=loop.lineno)
            nd = lin(env.get(D, ast.Name(id=D, ctx=ast.Load())))
            if ovr:
                n_ovr += 1
                L.ob("C09.R3", F, fn, "after an overrun the deadline is re-based on the clock (no catch-up ticks)", "now()",
                     canon(env.get(D)) if D in env else D, D in env and canon(env[D]) in NOW, loop.lineno)
            else:
                n_norm += 1
                L.ob("C09.R3", F, fn, "without overrun the deadline advances by exactly one tick (never re-based: that would accumulate handler time)",
                     ({D: 1, TICK: 1}, 0), nd, nd == ({D: 1, TICK: 1}, 0), loop.lineno)
        elif kind == "break":
            L.require("C09.R3", F, fn, "the loop is left only when the breaker is set [%s]" % rowtxt, True, wait_l, line=loop.lineno)
        else:
            L.ob("C09.R3", F, fn, "no path skips the tick or leaves the worker otherwise [%s]" % kind, "next | break", kind, False, loop.lineno)
        if warg is not None:
            # (D + TICK - now()) x unit on the normal path, 0 on overrun: fold the scale with a probe
            probe_env = {}
            names = sorted({n.id for n in ast.walk(warg) if isinstance(n, ast.Name)})
            wl = None
            from symfwd import subst_expr
            warg = subst_expr(warg, {k: v for k, v in env0.items() if k not in carried and k != TICK})
            # peel a constant scale factor (x * unit, unit * x, x / k): the unit conversion of the timeout
            scale_f = 1.0
            inner = warg
            for _ in range(3):
                if isinstance(inner, ast.BinOp) and isinstance(inner.op, (ast.Mult, ast.Div)):
                    cl_, cr_ = _const(repo, mod, ci, inner.left), _const(repo, mod, ci, inner.right)
                    if cr_ is not None and cr_ != 0:
                        scale_f = scale_f * cr_ if isinstance(inner.op, ast.Mult) else scale_f / cr_
                        inner = inner.left
                        continue
                    if cl_ is not None and isinstance(inner.op, ast.Mult):
                        scale_f *= cl_
                        inner = inner.right
                        continue
                break
            try:
                wl = X.linear(X.PyLower(const=lambda e__: (lambda v__: v__ if isinstance(v__, int) else None)(_const(repo, mod, ci, e__))).lower(inner))
            except AnalysisError:
                wl = None
            if ovr:
                L.ob("C09.R3", F, fn, "on overrun the wait does not sleep (timeout 0)", 0, canon(warg),
                     wl is not None and not wl[0] and wl[1] == 0, loop.lineno)
            else:
                ok_w = False
                scale = None
                if wl is not None and wl[1] == 0:
                    co = dict(wl[0])
                    nowk = [k for k in co if k in NOW]
                    if len(nowk) == 1 and set(co) == {D, TICK, nowk[0]}:
                        ok_w = co[D] == 1 and co[TICK] == 1 and co[nowk[0]] == -1 and scale_f > 0
                        scale = scale_f
                L.ob("C09.R3", F, fn, "the wait lasts until the absolute deadline: timeout = (deadline - now()) x unit", "(%s + %s - now()) x unit" % (D, TICK),
                     canon(warg)[:80], ok_w, loop.lineno)
                if ok_w:
                    unit = 1e-9 if any("_ns" in k for k in NOW if k in wl[0]) else 1.0
                    L.ob("C09.R3", F, fn, "wait timeout is converted to seconds", unit, scale, abs(scale - unit) <= unit * 1e-6, loop.lineno)
    L.floor("C09.R3", "normal / overrun paths that complete an iteration", min(n_norm, n_ovr), 1)
    # effects per completed path: exactly one tick, after the wait
    for conds, eff in [(c, [e for c2, e in fw.effects if c2 == c or tuple(c2) == tuple(c[:len(c2)])]) for k, c, e_ in paths if k == "next"]:
        ticks = [e for e in eff if e.endswith("send_clck_ind()")]
        L.require("C09.R3", F, fn, "send_clck_ind() calls per completed iteration", 1, len(ticks), line=loop.lineno)
    # the tick is decided by the wait: every execution of send_clck_ind() happens on a path on which the wait has
    # already expired without the breaker (not before the wait, not when the breaker fired)
    nt = 0
    for c2, e2 in fw.effects:
        if e2.endswith("send_clck_ind()"):
            nt += 1
            wl = [p_ for t_, p_ in c2 if t_ in waits]
            L.ob("C09.R3", F, fn, "a tick fires only after the wait expired without the breaker being set",
                 "wait(...) evaluated False before the tick", lit_fmt([x for x in c2 if x[0] in waits]), wl == [False], loop.lineno)
    L.floor("C09.R3", "tick sites on the paths of one iteration", nt, 1)
    sleeps = [c for c in calls_in(loop) if canon(c.func) in ("time.sleep", "sleep")]
    L.require("C09.R3", F, fn, "constant sleeps in the loop", 0, len(sleeps))
    # the tick constant: one TDMA frame
    c0, init = repo.find_method(ci, "__init__")
    e = Ev(repo, mod, self_cls=ci)
    for st in init.body:
        if isinstance(st, (ast.Assign, ast.AugAssign)):
            tgt = st.targets[0] if isinstance(st, ast.Assign) else st.target
            if canon(tgt) == "self.ctr_interval":
                try:
                    e.run_stmt(st)
                except (Unknown, Raised) as ex:
                    raise AnalysisError("ctr_interval does not fold: %s" % ex)
    try:
        tick = e.ev(env0[TICK]) if tick_ok else None
    except (Unknown, Raised) as ex:
        raise AnalysisError("tick constant does not fold: %s" % ex)
    if tick is not None:
        unit = 1e-9 if D in env0 and canon(env0[D]).endswith("_ns()") else 1.0
        period = tick * unit
        L.ob("C09.R3", F, fn, "tick period is one TDMA frame (4.615 ms +- 1 us)", "4.614e-3 .. 4.616e-3 s",
             "%r (%s * %g)" % (period, tick, unit), abs(period - 4.615e-3) <= 1.0e-6, loop.lineno)


def _const(repo, mod, ci, e):
    try:
        v = Ev(repo, mod, self_cls=ci).ev(e)
        return v if isinstance(v, (int, float)) and not isinstance(v, bool) else None
    except (Unknown, Raised):
        return None


def r3_deadline(L, repo):
    ci, fd = repo.need_method("clck_gen", "CLCKGen", "_worker")
    fn = "CLCKGen._worker"
    L.fn(F, fn)
    mod = repo.mod("clck_gen")
    cfg = CFG(fd)
    loops = [n for n in ast.walk(fd) if isinstance(n, ast.While)]
    L.require("C09.R3", F, fn, "number of worker loops", 1, len(loops))
    if len(loops) != 1:
        return
    loop = loops[0]
    waits = [c for c in calls_in(loop) if isinstance(c.func, ast.Attribute) and c.func.attr == "wait"]
    L.require("C09.R3", F, fn, "number of wait sites in the loop", 1, len(waits))
    sleeps = [c for c in calls_in(loop) if canon(c.func) in ("time.sleep", "sleep")]
    L.require("C09.R3", F, fn, "constant sleeps in the loop", 0, len(sleeps))
    if len(waits) != 1:
        return
    w = waits[0]
    L.require("C09.R3", F, fn, "the wait is on the breaker event", "self._breaker.wait", canon(w.func))
    # local definitions
    defs = {}
    for n in ast.walk(fd):
        if isinstance(n, ast.Assign) and len(n.targets) == 1 and isinstance(n.targets[0], ast.Name):
            defs.setdefault(n.targets[0].id, []).append(n)
        elif isinstance(n, ast.AugAssign) and isinstance(n.target, ast.Name):
            defs.setdefault(n.target.id, []).append(n)
    inloop = lambda n: any(n is x for x in ast.walk(loop))
    # candidates for the deadline variable: AugAssign += inside the loop
    cands = [v for v, ds in defs.items() if any(isinstance(d, ast.AugAssign) and inloop(d) for d in ds)]
    if len(cands) != 1:
        L.ob("C09.R3", F, fn, "a single loop-carried deadline variable advanced with `+=`", "1 variable", cands, False, loop.lineno)
        return
    D = cands[0]
    ds = defs[D]
    pre = [d for d in ds if not inloop(d)]
    inc = [d for d in ds if inloop(d) and isinstance(d, ast.AugAssign)]
    reb = [d for d in ds if inloop(d) and isinstance(d, ast.Assign)]
    L.ob("C09.R3", F, fn, "deadline `%s` starts at the current monotonic time" % D, "one definition before the loop = now()",
         [canon(d) for d in pre], len(pre) == 1 and isinstance(pre[0], ast.Assign) and is_now(pre[0].value),
         pre[0].lineno if pre else None)
    L.require("C09.R3", F, fn, "deadline is advanced at exactly one place per iteration", 1, len(inc))
    TICK = None
    for d in inc:
        ok = isinstance(d.op, ast.Add) and isinstance(d.value, ast.Name) and \
            all(not inloop(x) for x in defs.get(d.value.id, [])) and len(defs.get(d.value.id, [])) == 1
        L.ob("C09.R3", F, fn, "deadline advances by a loop-invariant tick (`%s`), not by time measured after the handler" % canon(d),
             "D += <tick defined once before the loop>", canon(d), ok, d.lineno)
        lits = guard_literals(cfg, cfg.node_of(d))
        L.require("C09.R3", F, fn, "the advance is unconditional within an iteration", [], lit_fmt({l for l in lits if l[0] != "1"}),
                  line=d.lineno)
        if ok:
            TICK = d.value.id
    # wait argument depends on D - now()
    subst = {}
    for v, dl in defs.items():
        if v != D and len(dl) >= 1 and all(isinstance(x, ast.Assign) for x in dl):
            subst[v] = dl
    warg = w.args[0] if w.args else None
    if warg is None:
        L.ob("C09.R3", F, fn, "wait has a timeout", "timeout argument", None, False, w.lineno)
        return
    # resolve names of the wait argument through their (in-loop) definitions
    names = {n.id for n in ast.walk(warg) if isinstance(n, ast.Name)}
    DT = None
    for nm in names:
        for d in defs.get(nm, []):
            if inloop(d) and isinstance(d, ast.Assign) and any(isinstance(x, ast.Name) and x.id == D for x in ast.walk(d.value)):
                DT = nm
    direct = D in names
    if DT is None and not direct:
        L.ob("C09.R3", F, fn, "wait timeout is derived from the absolute deadline", "depends on `%s`" % D, canon(warg), False, w.lineno)
        return
    if DT is not None:
        dd = [d for d in defs[DT] if inloop(d)]
        main = [d for d in dd if any(isinstance(x, ast.Name) and x.id == D for x in ast.walk(d.value))]
        zero = [d for d in dd if d not in main]
        # main: D - now  (now possibly via a temp)
        ok_main = False
        if len(main) == 1 and isinstance(main[0].value, ast.BinOp) and isinstance(main[0].value.op, ast.Sub) \
                and canon(main[0].value.left) == D:
            r = main[0].value.right
            if is_now(r):
                ok_main = True
            elif isinstance(r, ast.Name):
                rd = [d for d in defs.get(r.id, []) if inloop(d)]
                ok_main = len(rd) == 1 and isinstance(rd[0], ast.Assign) and is_now(rd[0].value) \
                    and rd[0].lineno > inc[0].lineno if inc else False
        L.ob("C09.R3", F, fn, "remaining time = deadline - current monotonic time (measured after the deadline was advanced)",
             "%s = %s - now()" % (DT, D), [canon(d) for d in main], ok_main, main[0].lineno if main else None)
        OVR = ("%s < 0" % DT, True)
        for z in zero:
            lits = guard_literals(cfg, cfg.node_of(z))
            ok = canon(z.value) == "0" and OVR in lits
            L.ob("C09.R3", F, fn, "remaining time is forced to zero only on overrun", "%s = 0 under %s < 0" % (DT, DT),
                 "%s under %s" % (canon(z), lit_fmt(lits)), ok, z.lineno)
    else:
        OVR = None
    # overrun re-base
    L.ob("C09.R3", F, fn, "after an overrun the deadline is re-based on the clock (no catch-up ticks)",
         "exactly one `%s = now()` inside the loop" % D, [canon(d) for d in reb],
         len(reb) == 1 and is_now(reb[0].value), reb[0].lineno if reb else loop.lineno)
    for d in reb:
        lits = guard_literals(cfg, cfg.node_of(d))
        lits = {l for l in lits if l[0] != "1"}
        want = {OVR} if OVR else None
        L.ob("C09.R3", F, fn, "the deadline is re-based only under the overrun test (never every iteration: that would accumulate handler time)",
             lit_fmt(want) if want else "guarded by deadline < now", lit_fmt(lits), want is not None and lits == want, d.lineno)
    # one tick per iteration, after the wait, unless the breaker fired
    ticks = find_calls(loop, attr="send_clck_ind")
    L.require("C09.R3", F, fn, "send_clck_ind() calls per iteration", 1, len(ticks))
    wnode = cfg.node_of(w)
    for t in ticks:
        tn = cfg.node_of(t)
        lits = {l for l in guard_literals(cfg, tn) if l[0] != "1"}
        want = {(canon(w), False)}
        L.require("C09.R3", F, fn, "a tick fires iff the wait expired without the breaker being set",
                  lit_fmt(want), lit_fmt(lits), line=t.lineno)
        L.ob("C09.R3", F, fn, "the tick fires after the wait", "wait dominates tick", "", cfg.dominates(wnode, tn), t.lineno)
    brks = [n for n in ast.walk(loop) if isinstance(n, (ast.Break, ast.Return))]
    for b in brks:
        lits = {l for l in guard_literals(cfg, cfg.node_of(b)) if l[0] != "1"}
        L.require("C09.R3", F, fn, "the loop is left only when the breaker is set", lit_fmt({(canon(w), True)}), lit_fmt(lits),
                  line=b.lineno)
    L.ob("C09.R3", F, fn, "the loop can be left", ">= 1 break", len(brks), len(brks) >= 1)
    # scale of the wait argument and the tick constant
    if TICK is not None:
        tdef = defs[TICK][0]
        env = {}
        c0, init = repo.find_method(ci, "__init__")
        e = Ev(repo, mod, self_cls=ci)
        for st in init.body:
            if isinstance(st, (ast.Assign, ast.AugAssign)):
                tgt = st.targets[0] if isinstance(st, ast.Assign) else st.target
                if canon(tgt) == "self.ctr_interval":
                    try:
                        e.run_stmt(st)
                    except (Unknown, Raised) as ex:
                        raise AnalysisError("ctr_interval does not fold: %s" % ex)
        for v, dl in defs.items():
            if len(dl) == 1 and isinstance(dl[0], ast.Assign) and not inloop(dl[0]) and dl[0].lineno < tdef.lineno:
                try:
                    e.env[v] = e.ev(dl[0].value)
                except (Unknown, Raised):
                    pass
        try:
            tick = e.ev(tdef.value)
        except (Unknown, Raised) as ex:
            raise AnalysisError("tick constant does not fold: %s" % ex)
        # unit of the deadline: ns if now() is monotonic_ns
        unit = 1e-9 if canon(pre[0].value.func).endswith("_ns") else 1.0
        period = tick * unit
        L.ob("C09.R3", F, fn, "tick period is one TDMA frame (4.615 ms +- 1 us)", "4.614e-3 .. 4.616e-3 s",
             "%r (%s * %g)" % (period, tick, unit), abs(period - 4.615e-3) <= 1.0e-6, tdef.lineno)
        # wait argument scale: seconds
        try:
            probe = dict(e.env)
            probe[DT or D] = 1000000 if unit == 1e-9 else 0.001
            sec = Ev(repo, mod, env=probe, self_cls=ci).ev(warg)
            L.ob("C09.R3", F, fn, "wait timeout is converted to seconds", "1e6 ns -> 1e-3 s", sec,
                 abs(sec - 0.001) < 1e-9, w.lineno)
        except (Unknown, Raised):
            raise AnalysisError("wait argument does not fold")


def r4_restart(L, repo):
    ci, st = repo.need_method("clck_gen", "CLCKGen", "start")
    fn = "CLCKGen.start"
    L.fn(F, fn)
    cfg = CFG(st)
    stores = [n for n in ast.walk(st) if isinstance(n, ast.Assign) and canon(n.targets[0]) == "self.clck_src"]
    vals_ = [canon(s.value) for s in stores]
    # the start frame itself, or the start frame reduced modulo the hyperframe (the identity for every frame number)
    ok_ = len(vals_) == 1 and vals_[0] in ("self.clck_start", "self.clck_start % GSM_HYPERFRAME", "self.clck_start % 2715648")
    L.ob("C09.R4", F, fn, "start() (re)sets the frame counter to the configured start frame",
         ["self.clck_start"], vals_, ok_, st.lineno)
    starts = [c for c in calls_in(st) if canon(c.func) == "self._thread.start"]
    L.require("C09.R4", F, fn, "thread is started once", 1, len(starts))
    for s in stores:
        for c in starts:
            L.ob("C09.R4", F, fn, "counter is reset before the worker thread runs", "store dominates thread start", "",
                 cfg.dominates(cfg.node_of(s), cfg.node_of(c)), s.lineno)
    thr = [n for n in ast.walk(st) if isinstance(n, ast.Assign) and canon(n.targets[0]) == "self._thread"]
    tv = [canon(t.value) for t in thr]
    L.ob("C09.R4", F, fn, "worker thread runs _worker", "threading.Thread(target=self._worker)", tv,
         len(tv) == 1 and "target=self._worker" in tv[0])
    # init: counter start default 0 and stored
    ci, init = repo.need_method("clck_gen", "CLCKGen", "__init__")
    s2 = {canon(n.targets[0]): canon(n.value) for n in ast.walk(init) if isinstance(n, ast.Assign)}
    ps = params(init)
    L.require("C09.R4", F, "CLCKGen.__init__", "configuration is stored (links, period, start frame)",
              ("clck_links", "ind_period", "clck_start"),
              (s2.get("self.clck_links"), s2.get("self.ind_period"), s2.get("self.clck_start")))
    ci, sp = repo.need_method("clck_gen", "CLCKGen", "stop")
    txt = [canon(s) for s in ast.walk(sp) if isinstance(s, (ast.Expr, ast.Assign)) and not (
        isinstance(s, ast.Expr) and isinstance(s.value, ast.Constant))]
    need = ["self._breaker.set()", "self._thread.join()", "self._thread = None", "self._breaker.clear()"]
    pos = [next((i for i, t in enumerate(txt) if t == nd), -1) for nd in need]
    L.ob("C09.R4", F, "CLCKGen.stop", "stop(): set breaker, join, forget thread, clear breaker - so start() can run again",
         need, txt, all(p >= 0 for p in pos) and pos == sorted(pos))
    # writers of clck_src over the toolkit
    n = 0
    for m in repo.tk_modules():
        L.unit(m.rel)
        for node, kind in attr_accesses(m.tree, "clck_src"):
            if kind != "load":
                n += 1
                q = qualname(node)
                L.ob("C09.R4", m.rel, q, "writer of the frame counter", "CLCKGen.start or CLCKGen.send_clck_ind", q,
                     q in ("CLCKGen.start", "CLCKGen.send_clck_ind"), node.lineno)
    L.floor("C09.R4", "writers of clck_src", n, 2)
    # send_clck_ind is called only by the worker
    for m in repo.tk_modules():
        for c in calls_in(m.tree):
            if isinstance(c.func, ast.Attribute) and c.func.attr == "send_clck_ind":
                q = qualname(c)
                L.ob("C09.R4", m.rel, q, "caller of send_clck_ind", "CLCKGen._worker", q, q == "CLCKGen._worker", c.lineno)


def r3(L, repo):
    """the path-based decision; where one iteration of the loop does not have the shape of a deadline update at all
    (no loop-carried `D' = D + tick`), the def-use rule decides and names what is wrong"""
    try:
        r3_paths(L, repo)
    except AnalysisError as e:
        L.extra["c09_r3_paths"] = "not applicable: %s" % str(e)[:120]
        r3_deadline(L, repo)
        return
    L.structural("C09.R3 def-use classification of the deadline variable in the worker loop", r3_deadline, L, repo)


def r7_worker_setup(L, repo):
    """R7 (while running, the handler is called once per tick): the clock thread survives its own set-up - every
    operating-system call `_worker()` makes before / around the timing loop that may fail with OSError
    (os.sched_setscheduler: EPERM without privileges, EINVAL for a priority outside the policy's range, ...) sits in a
    `try` whose handlers catch OSError as a whole (OSError, EnvironmentError, Exception or a bare except): a handler for
    one errno class only (PermissionError) lets the others end the thread before the first tick."""
    ci, wk = repo.need_method("clck_gen", "CLCKGen", "_worker")
    fn = "CLCKGen._worker"
    L.fn(F, fn)
    OSCALLS = ("os.sched_setscheduler", "os.sched_setparam", "os.nice", "os.setpriority", "os.sched_setaffinity")
    WIDE = {"OSError", "EnvironmentError", "IOError", "Exception", "BaseException"}
    n = 0
    for c in calls_in(wk):
        if canon(c.func) not in OSCALLS:
            continue
        n += 1
        caught, shown = False, []
        cur, child = getattr(c, "_parent", None), c
        while cur is not None and cur is not wk:
            if isinstance(cur, ast.Try) and any(child is x for x in cur.body):
                for h in cur.handlers:
                    names = ["<bare>"] if h.type is None else [canon(x) for x in (h.type.elts if isinstance(h.type, ast.Tuple) else [h.type])]
                    shown += names
                    if h.type is None or any(x.split(".")[-1] in WIDE for x in names):
                        caught = True
            child, cur = cur, getattr(cur, "_parent", None)
        L.ob("C09.R7", F, fn, "`%s(..)` in the clock thread cannot end the thread: every OSError is caught" % canon(c.func),
             "inside try ... except OSError (or wider)", shown or "not inside a try", caught, c.lineno)
    L.extra["c09_r7_os_calls"] = n


def run(L, tier):
    repo = Repo(L.repo)
    if L.stage(tick_fold, L, repo) is True:
        # the fold decides; the shape of the statements is a proof attempt for all frame numbers / periods / link lists
        L.structural("C09.R1 shape of the counter update and the handler call in send_clck_ind", r1_counter, L, repo,
                     hard=lambda rule, key: "GSM_HYPERFRAME" in key)
        L.structural("C09.R2 guard set of the indication loop in send_clck_ind", r2_indication, L, repo)
    else:
        L.stage(r1_counter, L, repo)
        L.stage(r2_indication, L, repo)
    L.stage(life_fold, L, repo)
    L.stage(r3, L, repo)
    L.stage(r4_restart, L, repo)
    L.stage(r7_worker_setup, L, repo)
    from pyutil import instance_state
    L.stage(_r6_instance, L, repo)


def _r6_instance(L, repo):
    """R6: each clock generator controls its own thread: the stop event / thread handle / link list are per instance"""
    from pyutil import instance_state
    try:
        instance_state(L, repo, "C09.R6", "clck_gen", "CLCKGen", "each clock generator has its own control objects")
    except Exception as e:
        from report import AnalysisError
        if isinstance(e, AnalysisError) and "below floor" in str(e):
            return
        raise
