# E1 / E3 -- Python front end: module & class tables, statement-level CFG,
# dominance, edge-dominance ("guard literals"), path-count dataflow,
# who-may-write scans.  Pure stdlib `ast`; nothing from the repository is
# imported or executed.

import ast
import os

from report import AnalysisError

TK = "src/target/trx_toolkit"


# ------------------------------------------------------------------ modules

class ClassInfo:
    def __init__(self, mod, node):
        self.mod = mod
        self.node = node
        self.name = node.name
        self.bases = []
        for b in node.bases:
            if isinstance(b, ast.Name):
                self.bases.append(b.id)
            elif isinstance(b, ast.Attribute):
                self.bases.append(b.attr)
            else:
                self.bases.append(ast.unparse(b))
        self.methods = {}
        self.attrs = {}      # class-level name -> value AST
        self.inner = {}
        for st in node.body:
            if isinstance(st, (ast.FunctionDef,)):
                self.methods[st.name] = st
            elif isinstance(st, ast.Assign):
                for t in st.targets:
                    if isinstance(t, ast.Name):
                        self.attrs[t.id] = st.value
            elif isinstance(st, ast.AnnAssign) and st.value is not None:
                if isinstance(st.target, ast.Name):
                    self.attrs[st.target.id] = st.value
            elif isinstance(st, ast.ClassDef):
                self.inner[st.name] = ClassInfo(mod, st)

    def __repr__(self):
        return "<class %s.%s>" % (self.mod.name, self.name)


class Mod:
    def __init__(self, repo, name):
        self.repo = repo
        self.name = name
        self.rel = "%s/%s.py" % (TK, name)
        self.path = os.path.join(repo.root, self.rel)
        try:
            with open(self.path, "r", encoding="utf-8") as f:
                self.src = f.read()
            self.tree = ast.parse(self.src, filename=self.path)
        except (OSError, SyntaxError) as e:
            raise AnalysisError("cannot parse %s: %s" % (self.rel, e))
        # annotated assignments inside functions (`drop: list = []`) are plain assignments for every rule; a bare
        # annotation (`x: int`) is no statement at all.  Class-level / module-level annotations are left alone (dataclass-like
        # declarations are read by the rules that care).
        class _Ann(ast.NodeTransformer):
            def __init__(self_):
                self_.depth = 0

            def visit_FunctionDef(self_, node):
                self_.depth += 1
                self_.generic_visit(node)
                self_.depth -= 1
                return node

            def visit_AnnAssign(self_, node):
                if self_.depth == 0:
                    return node
                if node.value is None:
                    return ast.copy_location(ast.Pass(), node)
                return ast.copy_location(ast.Assign(targets=[node.target], value=node.value), node)
        self.tree = ast.fix_missing_locations(_Ann().visit(self.tree))
        # memoising decorators: read like a plain property / method by every rule (first evaluation); the functions are
        # recorded so that the memoisation itself is checked (pyutil.memo_sound)
        self.memoised = []
        for cls_ in [x for x in ast.walk(self.tree) if isinstance(x, ast.ClassDef)]:
            for m_ in [x for x in cls_.body if isinstance(x, ast.FunctionDef)]:
                keep = []
                for d_ in m_.decorator_list:
                    core = d_.func if isinstance(d_, ast.Call) else d_
                    nm_ = core.attr if isinstance(core, ast.Attribute) else core.id if isinstance(core, ast.Name) else None
                    if nm_ == "cached_property":
                        self.memoised.append((cls_.name, m_, nm_))
                        keep.append(ast.copy_location(ast.Name(id="property", ctx=ast.Load()), d_))
                    elif nm_ in ("lru_cache", "cache"):
                        self.memoised.append((cls_.name, m_, nm_))
                    else:
                        keep.append(d_)
                m_.decorator_list = keep
        # module-level memoised functions (class name None)
        for m_ in [x for x in self.tree.body if isinstance(x, ast.FunctionDef)]:
            for d_ in m_.decorator_list:
                core = d_.func if isinstance(d_, ast.Call) else d_
                nm_ = core.attr if isinstance(core, ast.Attribute) else core.id if isinstance(core, ast.Name) else None
                if nm_ in ("lru_cache", "cache"):
                    self.memoised.append((None, m_, nm_))
        # helpers introduced after the pinned commit are inlined into their callers (see inline.py)
        from inline import Inliner, StructNorm, Evolve
        self.struct_normalised = StructNorm(self.tree).run()
        self.evolved = Evolve(name, self.tree, path=self.path).run()
        self.inlined = Inliner(name, self.tree, path=self.path).run()
        if self.evolved or self.inlined:
            # formats that were named constants / helper results a moment ago are literals now
            self.struct_normalised += StructNorm(self.tree).run()
        from inline import split_tuple_assigns
        self.tuple_split = split_tuple_assigns(self.tree)
        set_parents(self.tree)
        self.classes = {}
        self.funcs = {}
        self.consts = {}
        self.star_imports = []
        self.from_imports = {}   # local name -> (module, name)
        self.imports = {}        # local alias -> module
        self.built = {}          # module-level names updated after their first assignment -> [statements] (in order)
        for st in self.tree.body:
            if isinstance(st, ast.ClassDef):
                self.classes[st.name] = ClassInfo(self, st)
            elif isinstance(st, ast.FunctionDef):
                self.funcs[st.name] = st
            elif isinstance(st, ast.Assign):
                for t in st.targets:
                    if isinstance(t, ast.Name):
                        self.consts[t.id] = st.value
                    elif isinstance(t, ast.Attribute) and isinstance(t.value, ast.Name) and t.value.id in self.classes \
                            and t.attr not in self.classes[t.value.id].attrs and t.attr not in self.classes[t.value.id].methods:
                        # `Class.attr = value` at module level, after the class: a class attribute bound late
                        self.classes[t.value.id].attrs[t.attr] = st.value
            elif isinstance(st, ast.ImportFrom):
                for a in st.names:
                    if a.name == "*":
                        self.star_imports.append(st.module)
                    else:
                        self.from_imports[a.asname or a.name] = (st.module, a.name)
            elif isinstance(st, ast.Import):
                for a in st.names:
                    self.imports[a.asname or a.name] = a.name
        # names whose module-level value is built by later statements (x = {}; for ...: x.setdefault(...); x[k] = v;
        # x += ...; second assignment): the first assignment alone is NOT their value
        for nm in list(self.consts):
            touching = []
            for st in self.tree.body:
                if isinstance(st, (ast.FunctionDef, ast.ClassDef, ast.Import, ast.ImportFrom)):
                    continue
                hit = False
                for n in ast.walk(st):
                    if isinstance(n, (ast.FunctionDef, ast.Lambda)):
                        continue
                    if isinstance(n, ast.Name) and n.id == nm:
                        par = getattr(n, "_parent", None)
                        if isinstance(n.ctx, (ast.Store, ast.Del)):
                            hit = True
                        elif isinstance(par, ast.Attribute) and par.attr in MUTATORS and isinstance(getattr(par, "_parent", None), ast.Call):
                            hit = True
                        elif isinstance(par, ast.Subscript) and par.value is n and isinstance(par.ctx, (ast.Store, ast.Del)):
                            hit = True
                if hit:
                    touching.append(st)
            if len(touching) > 1:
                self.built[nm] = touching


def clone(n):
    """structural copy of an AST (sub)tree WITHOUT the `_parent` back links (copy.deepcopy would follow
    them and copy the whole module)"""
    if isinstance(n, ast.AST):
        new = n.__class__()
        for f in n._fields:
            if hasattr(n, f):
                setattr(new, f, clone(getattr(n, f)))
        for a in ("lineno", "col_offset", "end_lineno", "end_col_offset"):
            if hasattr(n, a):
                setattr(new, a, getattr(n, a))
        return new
    if isinstance(n, list):
        return [clone(x) for x in n]
    return n


def set_parents(tree):
    for n in ast.walk(tree):
        for c in ast.iter_child_nodes(n):
            c._parent = n
    tree._parent = None


class Repo:
    def __init__(self, root):
        self.root = os.path.abspath(root)
        self._mods = {}

    def tk_modules(self, include_tests=False):
        d = os.path.join(self.root, TK)
        try:
            names = sorted(f[:-3] for f in os.listdir(d) if f.endswith(".py"))
        except OSError as e:
            raise AnalysisError("toolkit directory missing: %s" % e)
        if not include_tests:
            names = [n for n in names if not n.startswith("test_")]
        return [self.mod(n) for n in names]

    def has_mod(self, name):
        return os.path.exists(os.path.join(self.root, TK, name + ".py"))

    def mod(self, name):
        if name not in self._mods:
            self._mods[name] = Mod(self, name)
        return self._mods[name]

    # -- name resolution (flat toolkit namespace, star imports followed) --
    def lookup(self, mod, name, _seen=None):
        """Resolve a global name as seen from `mod` to ('class', ClassInfo) |
        ('func', FunctionDef, Mod) | ('const', ast, Mod) | None."""
        _seen = _seen or set()
        if (mod.name, name) in _seen:
            return None
        _seen.add((mod.name, name))
        if name in mod.classes:
            return ("class", mod.classes[name])
        if name in mod.funcs:
            return ("func", mod.funcs[name], mod)
        if name in mod.consts:
            return ("const", mod.consts[name], mod)
        if name in mod.from_imports:
            m, n = mod.from_imports[name]
            if self.has_mod(m):
                return self.lookup(self.mod(m), n, _seen)
            return None
        for m in mod.star_imports:
            if self.has_mod(m):
                r = self.lookup(self.mod(m), name, _seen)
                if r is not None:
                    return r
        return None

    def cls(self, mod, name):
        r = self.lookup(mod, name)
        if r is None or r[0] != "class":
            return None
        return r[1]

    def mro(self, ci):
        out, cur, seen = [], ci, set()
        work = [ci]
        while work:
            c = work.pop(0)
            if c is None or id(c) in seen:
                continue
            seen.add(id(c))
            out.append(c)
            for b in c.bases:
                bc = self.cls(c.mod, b)
                if bc is None and b in c.mod.imports:
                    bc = None
                if bc is None:
                    # module-qualified base, e.g. codec.Envelope
                    for m in list(c.mod.imports.values()):
                        if self.has_mod(m):
                            bc = self.mod(m).classes.get(b)
                            if bc:
                                break
                work.append(bc)
        return out

    def find_method(self, ci, name):
        for c in self.mro(ci):
            if name in c.methods:
                return c, c.methods[name]
        return None, None

    def find_attr(self, ci, name):
        for c in self.mro(ci):
            if name in c.attrs:
                return c, c.attrs[name]
        return None, None

    def need_class(self, modname, clsname):
        if not self.has_mod(modname):
            raise AnalysisError("anchor module %s.py vanished" % modname)
        ci = self.mod(modname).classes.get(clsname)
        if ci is None:
            raise AnalysisError("anchor class %s.%s vanished" % (modname, clsname))
        return ci

    def need_method(self, modname, clsname, meth, inherited=False):
        ci = self.need_class(modname, clsname)
        if inherited:
            c, m = self.find_method(ci, meth)
        else:
            c, m = ci, ci.methods.get(meth)
        if m is None:
            raise AnalysisError("anchor method %s.%s.%s vanished" % (
                modname, clsname, meth))
        return c, m


# ---------------------------------------------------------------------- CFG

class Node:
    __slots__ = ("id", "kind", "ast", "succ", "pred", "trys", "cond")

    def __init__(self, i, kind, a):
        self.id = i
        self.kind = kind      # entry exit raise stmt cond loop with handler
        self.ast = a
        self.succ = []        # (node, label)
        self.pred = []
        self.trys = ()
        self.cond = None

    @property
    def line(self):
        return getattr(self.ast, "lineno", None)

    def __repr__(self):
        t = ""
        if self.ast is not None:
            try:
                t = ast.unparse(self.ast).split("\n")[0][:50]
            except Exception:
                t = type(self.ast).__name__
        return "<%d %s %s>" % (self.id, self.kind, t)


def is_const_true(e):
    return isinstance(e, ast.Constant) and bool(e.value) is True


def is_const_false(e):
    return isinstance(e, ast.Constant) and bool(e.value) is False and e.value is not None


class CFG:
    """Statement-level CFG of one function body.

    Labels: None (sequential), True/False (branch), 'iter'/'done' (for loop),
    'exc' (from a statement inside `try` to a handler)."""

    def __init__(self, func):
        self.func = func
        self.nodes = []
        self.entry = self._new("entry", None)
        self.exit = self._new("exit", None)
        self.rexit = self._new("raise", None)   # exceptional exit
        self._loops = []     # (continue_target, break_target)
        self._trys = []      # stack of lists of handler entry nodes
        self.by_ast = {}
        ends = self._block(func.body, [(self.entry, None)])
        self._join(ends, self.exit)

    def _new(self, kind, a):
        n = Node(len(self.nodes), kind, a)
        n.trys = tuple(self._trys) if hasattr(self, "_trys") else ()
        self.nodes.append(n)
        if a is not None:
            self.by_ast[id(a)] = n
        return n

    def _edge(self, a, b, label):
        a.succ.append((b, label))
        b.pred.append((a, label))

    def _join(self, ends, node):
        for (a, l) in ends:
            self._edge(a, node, l)

    def _exc_edges(self, n):
        # a statement inside try bodies may transfer to any enclosing handler
        for handlers in self._trys:
            for h in handlers:
                self._edge(n, h, "exc")

    def _block(self, stmts, ends):
        for st in stmts:
            ends = self._stmt(st, ends)
        return ends

    def _stmt(self, st, ends):
        if isinstance(st, ast.If):
            c = self._new("cond", st)
            self._join(ends, c)
            self._exc_edges(c)
            t_ends = self._block(st.body, [(c, True)])
            f_ends = self._block(st.orelse, [(c, False)]) if st.orelse else [(c, False)]
            if is_const_true(st.test):
                f_ends = [] if not st.orelse else f_ends
            return t_ends + f_ends
        if isinstance(st, ast.While):
            c = self._new("cond", st)
            self._join(ends, c)
            self._exc_edges(c)
            brk = []
            self._loops.append((c, brk))
            b_ends = self._block(st.body, [(c, True)])
            self._loops.pop()
            self._join(b_ends, c)
            out = list(brk)
            if not is_const_true(st.test):
                if st.orelse:
                    out += self._block(st.orelse, [(c, False)])
                else:
                    out.append((c, False))
            return out
        if isinstance(st, ast.For):
            c = self._new("loop", st)
            self._join(ends, c)
            self._exc_edges(c)
            brk = []
            self._loops.append((c, brk))
            b_ends = self._block(st.body, [(c, "iter")])
            self._loops.pop()
            self._join(b_ends, c)
            out = list(brk)
            if st.orelse:
                out += self._block(st.orelse, [(c, "done")])
            else:
                out.append((c, "done"))
            return out
        if isinstance(st, ast.Try):
            handlers = [self._new("handler", h) for h in st.handlers]
            self._trys.append(handlers)
            b_ends = self._block(st.body, ends)
            self._trys.pop()
            if st.orelse:
                b_ends = self._block(st.orelse, b_ends)
            out = list(b_ends)
            for hn, h in zip(handlers, st.handlers):
                out += self._block(h.body, [(hn, None)])
            if st.finalbody:
                out = self._block(st.finalbody, out)
            return out
        if isinstance(st, ast.With):
            w = self._new("with", st)
            self._join(ends, w)
            self._exc_edges(w)
            return self._block(st.body, [(w, None)])
        if isinstance(st, ast.Return):
            n = self._new("stmt", st)
            self._join(ends, n)
            self._exc_edges(n)
            self._edge(n, self.exit, None)
            return []
        if isinstance(st, ast.Raise):
            n = self._new("stmt", st)
            self._join(ends, n)
            if self._trys:
                self._exc_edges(n)
                if not self._catch_all():
                    self._edge(n, self.rexit, None)
            else:
                self._edge(n, self.rexit, None)
            return []
        if isinstance(st, ast.Break):
            n = self._new("stmt", st)
            self._join(ends, n)
            if not self._loops:
                raise AnalysisError("break outside loop")
            self._loops[-1][1].append((n, None))
            return []
        if isinstance(st, ast.Continue):
            n = self._new("stmt", st)
            self._join(ends, n)
            self._edge(n, self._loops[-1][0], None)
            return []
        if isinstance(st, (ast.FunctionDef, ast.ClassDef, ast.AsyncFunctionDef)):
            n = self._new("stmt", st)
            self._join(ends, n)
            return [(n, None)]
        # simple statement
        n = self._new("stmt", st)
        self._join(ends, n)
        self._exc_edges(n)
        return [(n, None)]

    def _catch_all(self):
        for handlers in self._trys:
            for h in handlers:
                t = h.ast.type
                if t is None:
                    return True
                if isinstance(t, ast.Name) and t.id in ("Exception", "BaseException"):
                    return True
        return False

    # -- queries -------------------------------------------------------------
    def node_of(self, a):
        """CFG node whose statement contains AST node `a`."""
        cur = a
        while cur is not None:
            n = self.by_ast.get(id(cur))
            if n is not None:
                return n
            cur = getattr(cur, "_parent", None)
        raise AnalysisError("AST node not in CFG")

    def reach(self, start, skip_edge=None, skip_nodes=(), labels_skip=("exc",)):
        seen = {start.id}
        work = [start]
        skip_ids = {n.id for n in skip_nodes}
        while work:
            n = work.pop()
            for (s, l) in n.succ:
                if l in labels_skip:
                    continue
                if skip_edge is not None and n.id == skip_edge[0].id and l == skip_edge[1]:
                    continue
                if s.id in seen or s.id in skip_ids:
                    continue
                seen.add(s.id)
                work.append(s)
        return seen

    def branch_edges(self):
        for n in self.nodes:
            if n.kind in ("cond", "loop"):
                for l in {l for (_, l) in n.succ if l != "exc"}:
                    yield (n, l)

    def guards(self, target):
        """Edge-dominators of `target`: branch edges (cond node, label) such
        that every path from entry to target uses that edge."""
        if target.id not in self.reach(self.entry, labels_skip=()):
            raise AnalysisError("target unreachable: %r" % target)
        out = []
        for (c, l) in self.branch_edges():
            if c.id == target.id:
                continue
            if target.id not in self.reach(self.entry, skip_edge=(c, l), labels_skip=()):
                out.append((c, l))
        return out

    def guards_from(self, src, target):
        """Branch edges used by every path from `src` to `target` (edge-dominators relative to src)."""
        if target.id not in self.reach(src, labels_skip=()):
            return None
        out = []
        for (c, l) in self.branch_edges():
            if c.id == target.id:
                continue
            if target.id not in self.reach(src, skip_edge=(c, l), labels_skip=()):
                out.append((c, l))
        return out

    def dominates(self, a, b):
        """Every path entry->b passes through a."""
        if a.id == b.id:
            return True
        return b.id not in self.reach(self.entry, skip_nodes=[a], labels_skip=()) or \
            b.id not in self.reach(self.entry, labels_skip=())

    def must_pass(self, start, through, to=None):
        """Every path start->to (default: normal exit) passes a node in
        `through`."""
        to = to or self.exit
        if start.id in {n.id for n in through}:
            return True
        return to.id not in self.reach(start, skip_nodes=through, labels_skip=())

    def reachable(self, a, b, with_exc=False):
        return b.id in self.reach(a, labels_skip=() if with_exc else ("exc",))

    def count_paths(self, is_sink, start=None, with_exc=False):
        """Forward dataflow: for every node the set of possible numbers of
        sink nodes passed on a path from start (cap 2).  Returns dict
        node.id -> frozenset."""
        start = start or self.entry
        val = {n.id: set() for n in self.nodes}
        val[start.id] = {0}
        work = [start]
        while work:
            n = work.pop()
            outv = set()
            for v in val[n.id]:
                outv.add(min(2, v + 1) if is_sink(n) else v)
            for (s, l) in n.succ:
                if l == "exc" and not with_exc:
                    continue
                if not outv <= val[s.id]:
                    val[s.id] |= outv
                    work.append(s)
        return val

    def stmts(self, pred=None):
        for n in self.nodes:
            if n.ast is not None and (pred is None or pred(n)):
                yield n

    def in_loop(self, node):
        """innermost enclosing For/While AST of a node"""
        cur = getattr(node.ast, "_parent", None)
        while cur is not None and cur is not self.func:
            if isinstance(cur, (ast.For, ast.While)):
                return cur
            cur = getattr(cur, "_parent", None)
        return None


# ---------------------------------------------------------------- literals

class _Subst(ast.NodeTransformer):
    def __init__(self, m):
        self.m = m

    def visit_Name(self, n):
        if isinstance(n.ctx, ast.Load) and n.id in self.m:
            return clone(self.m[n.id])
        return n


def canon(e, subst=None):
    """Canonical text of an expression (after optional substitution of
    single-definition temporaries)."""
    if subst:
        import copy
        e = _Subst(subst).visit(clone(e))
        ast.fix_missing_locations(e)
    return ast.unparse(e)


_SYM = (ast.Eq, ast.NotEq, ast.Is, ast.IsNot)


def literals(test, pol=True, subst=None):
    """Normalise a branch condition taken with polarity `pol` into a set of
    atoms (text, polarity).  De Morgan, `not`, != / is not / not in / >= / >
    / <= are folded onto == / is / in / <."""
    if isinstance(test, ast.UnaryOp) and isinstance(test.op, ast.Not):
        return literals(test.operand, not pol, subst)
    if isinstance(test, ast.BoolOp):
        if (isinstance(test.op, ast.And) and pol) or (isinstance(test.op, ast.Or) and not pol):
            out = set()
            for v in test.values:
                out |= literals(v, pol, subst)
            return out
        # a disjunction: keep as one atom with sorted canonical parts
        parts = []
        for v in test.values:
            parts.append(" & ".join(sorted(
                ("" if p else "!") + t for (t, p) in literals(v, True, subst))))
        op = "|" if isinstance(test.op, ast.Or) else "&"
        txt = (" %s " % op).join("(%s)" % p for p in sorted(parts))
        if isinstance(test.op, ast.And):
            # not (a and b): express as disjunction of negations
            nparts = []
            for v in test.values:
                nparts.append(" & ".join(sorted(
                    ("" if p else "!") + t for (t, p) in literals(v, False, subst))))
            txt = " | ".join("(%s)" % p for p in sorted(nparts))
            return {(txt, True)}
        return {(txt, pol)}
    if isinstance(test, ast.Compare) and len(test.ops) == 1:
        a, op, b = test.left, test.ops[0], test.comparators[0]
        ta, tb = canon(a, subst), canon(b, subst)
        if isinstance(op, _SYM):
            lo, hi = sorted([ta, tb])
            if isinstance(op, ast.Eq):
                return {("%s == %s" % (lo, hi), pol)}
            if isinstance(op, ast.NotEq):
                return {("%s == %s" % (lo, hi), not pol)}
            if isinstance(op, ast.Is):
                return {("%s is %s" % (lo, hi), pol)}
            return {("%s is %s" % (lo, hi), not pol)}
        if isinstance(op, ast.In):
            return {("%s in %s" % (ta, tb), pol)}
        if isinstance(op, ast.NotIn):
            return {("%s in %s" % (ta, tb), not pol)}
        if isinstance(op, ast.Lt):
            return {("%s < %s" % (ta, tb), pol)}
        if isinstance(op, ast.Gt):
            return {("%s < %s" % (tb, ta), pol)}
        if isinstance(op, ast.GtE):
            return {("%s < %s" % (ta, tb), not pol)}
        if isinstance(op, ast.LtE):
            return {("%s < %s" % (tb, ta), not pol)}
    if isinstance(test, ast.Constant):
        return set() if bool(test.value) == pol else {("False", True)}
    return {(canon(test, subst), pol)}


def guard_literals(cfg, target, subst=None, with_done=False):
    """All literals (text, polarity) that hold on every path to target,
    plus loop-membership markers ('iter <loop target> in <iter>', True)."""
    out = set()
    for (c, l) in cfg.guards(target):
        if c.kind == "cond":
            out |= literals(c.ast.test, bool(l), subst)
        elif c.kind == "loop":
            if l == "iter":
                out.add(("for %s in %s" % (canon(c.ast.target), canon(c.ast.iter, subst)), True))
            elif with_done:
                out.add(("done %s in %s" % (canon(c.ast.target), canon(c.ast.iter, subst)), True))
    return out


def guard_literals_from(cfg, src, target, subst=None):
    """literals that hold on every path from src to target (None if target is unreachable from src)"""
    g = cfg.guards_from(src, target)
    if g is None:
        return None
    out = set()
    for (c, l) in g:
        if c.kind == "cond":
            out |= literals(c.ast.test, bool(l), subst)
    return out


# ----------------------------------------------------------- misc helpers

def calls_in(node, pred=None):
    for n in ast.walk(node):
        if isinstance(n, ast.Call) and (pred is None or pred(n)):
            yield n


def call_name(c):
    """'a.b.c' textual name of the callee of ast.Call c"""
    f = c.func
    try:
        return ast.unparse(f)
    except Exception:
        return "?"


def is_self_attr(e, attr=None, selfname="self"):
    return (isinstance(e, ast.Attribute) and isinstance(e.value, ast.Name)
            and e.value.id == selfname and (attr is None or e.attr == attr))


def enclosing_func(node):
    cur = getattr(node, "_parent", None)
    while cur is not None:
        if isinstance(cur, (ast.FunctionDef, ast.Lambda)):
            return cur
        cur = getattr(cur, "_parent", None)
    return None


def enclosing_class(node):
    cur = getattr(node, "_parent", None)
    while cur is not None:
        if isinstance(cur, ast.ClassDef):
            return cur
        cur = getattr(cur, "_parent", None)
    return None


def qualname(node):
    parts = []
    cur = node
    while cur is not None:
        if isinstance(cur, (ast.FunctionDef, ast.ClassDef)):
            parts.append(cur.name)
        cur = getattr(cur, "_parent", None)
    return ".".join(reversed(parts)) or "<module>"


MUTATORS = {"append", "extend", "insert", "remove", "pop", "clear", "sort",
            "reverse", "update", "add", "discard", "popitem", "setdefault",
            "__setitem__", "__delitem__"}


def attr_accesses(tree, attr):
    """Every syntactic access to `.attr` in tree: yields (node, kind) where
    kind is 'store' | 'del' | 'aug' | 'mutcall:<m>' | 'load'."""
    for n in ast.walk(tree):
        if isinstance(n, ast.Attribute) and n.attr == attr:
            p = getattr(n, "_parent", None)
            if isinstance(n.ctx, ast.Store):
                if isinstance(p, ast.AugAssign) and p.target is n:
                    yield n, "aug"
                else:
                    yield n, "store"
            elif isinstance(n.ctx, ast.Del):
                yield n, "del"
            else:
                if (isinstance(p, ast.Attribute) and p.value is n
                        and isinstance(getattr(p, "_parent", None), ast.Call)
                        and p._parent.func is p and p.attr in MUTATORS):
                    yield n, "mutcall:" + p.attr
                elif isinstance(p, ast.Subscript) and p.value is n and \
                        isinstance(p.ctx, (ast.Store, ast.Del)):
                    yield n, "store-item"
                else:
                    yield n, "load"


def single_defs(func):
    """Local names assigned exactly once (plain `x = expr`) in func, and not
    parameters: name -> value AST.  Used to inline temporaries."""
    counts, vals = {}, {}
    params = {a.arg for a in func.args.args + func.args.kwonlyargs}
    if func.args.vararg:
        params.add(func.args.vararg.arg)
    if func.args.kwarg:
        params.add(func.args.kwarg.arg)
    for n in ast.walk(func):
        if isinstance(n, ast.Name) and isinstance(n.ctx, (ast.Store, ast.Del)):
            counts[n.id] = counts.get(n.id, 0) + 1
            p = getattr(n, "_parent", None)
            if isinstance(p, ast.Assign) and len(p.targets) == 1 and p.targets[0] is n:
                vals[n.id] = p.value
    return {k: v for k, v in vals.items() if counts.get(k) == 1 and k not in params}


def with_locks_held(node, stop):
    """Texts of `with <expr>:` context expressions lexically enclosing node
    (up to function `stop`)."""
    out = []
    cur = getattr(node, "_parent", None)
    while cur is not None and cur is not stop:
        if isinstance(cur, ast.With):
            for it in cur.items:
                out.append(ast.unparse(it.context_expr))
        cur = getattr(cur, "_parent", None)
    return out
