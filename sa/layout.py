# E6 -- byte-layout abstract domain for the TRXD message codec (data_msg.py).
#
# Encoder side: interprets buffer-building code (`buf = bytearray()`,
# `buf.append(e)`, `buf += struct.pack(fmt, e)`, `buf.extend(e)`,
# `buf += bytearray(n)`, calls of self.append_*_to(buf) inlined per class)
# into an ordered list of segments (offset, size, struct format, value
# expression).  Decoder side: interprets the parser (`self.f = expr(msg[...])`,
# struct.unpack of slices, inlined self.parse_*(msg)) into field <- expression
# over octet references.  Branch conditions must fold under the scenario
# (header version, burst present, legacy flag), otherwise AnalysisError.
# Bit-level provenance of packed octets uses the shared expression normal
# form (shift = multiplication by 2^k, mask 2^k-1 = mod 2^k).

import ast
import struct

from report import AnalysisError
from consteval import Ev, Unknown, Raised
from pyfront import canon
from symfwd import subst_expr
import exprnf as X


class Seg:
    def __init__(self, off, size, fmt, expr, kind, node):
        self.off, self.size, self.fmt, self.expr, self.kind, self.node = off, size, fmt, expr, kind, node

    def __repr__(self):
        return "<%s@%s+%s %s %s>" % (self.kind, self.off, self.size, self.fmt, canon(self.expr) if self.expr is not None else "")


PRESENT = object()


class Enc:
    """interprets gen_msg() of class ci for one scenario"""

    def __init__(self, repo, ci, ver, burst_present, legacy, nope=False):
        self.repo, self.ci = repo, ci
        self.env = {"self.ver": ver, "self.burst": (PRESENT if burst_present else None), "legacy": legacy,
                    "self.nope_ind": nope}
        self.segs = []
        self.off = 0
        self.buf = None
        self.validated_first = None

    def ev(self, mod, e, loc):
        env = dict(self.env)
        return Ev(self.repo, mod, env=env, self_cls=self.ci).ev(e)

    def run(self, meth="gen_msg"):
        c, m = self.repo.find_method(self.ci, meth)
        if m is None:
            raise AnalysisError("%s.%s vanished" % (self.ci.name, meth))
        self.call(c, m, {}, 0, top=True)
        return self.segs

    def call(self, c, m, loc, depth, top=False, bufname=None):
        if depth > 5:
            raise AnalysisError("layout: call depth")
        loc = dict(loc)
        buf = bufname
        for st in m.body:
            r = self.stmt(st, c, m, loc, depth, buf)
            if isinstance(r, tuple) and r[0] == "buf":
                buf = r[1]
            elif r == "ret":
                return

    def emit(self, size, fmt, expr, kind, node):
        self.segs.append(Seg(self.off if self.off is not None else None, size, fmt, expr, kind, node))
        if size is None:
            self.off = None
        elif self.off is not None:
            self.off += size

    def stmt(self, st, c, m, loc, depth, buf):
        mod = c.mod
        if isinstance(st, ast.Expr) and isinstance(st.value, ast.Constant):
            return None
        if isinstance(st, ast.If):
            test_ = subst_expr(st.test, loc)
            if buf is not None and self.off is not None:
                # the number of octets generated so far is known to the interpretation
                off_ = self.off

                class _Len(ast.NodeTransformer):
                    def visit_Call(self_, n_):
                        self_.generic_visit(n_)
                        if isinstance(n_.func, ast.Name) and n_.func.id == "len" and len(n_.args) == 1 \
                                and isinstance(n_.args[0], ast.Name) and n_.args[0].id == buf:
                            return ast.copy_location(ast.Constant(value=off_), n_)
                        return n_
                from pyfront import clone as _cl2
                test_ = _Len().visit(_cl2(test_))
            try:
                v = self.ev(mod, test_, loc)
            except (Unknown, Raised) as e:
                if not st.orelse and st.body and all(isinstance(x, (ast.Raise, ast.Expr)) for x in st.body) and isinstance(st.body[-1], ast.Raise) \
                        and not any(isinstance(c_, ast.Call) and not canon(c_.func).startswith(("log.", "len")) and not canon(c_.func).endswith(("Error", "Exception"))
                                    for x in st.body for c_ in ast.walk(x)):
                    # a consistency check that only raises: the layout describes the datagrams that ARE produced
                    return ("buf", buf) if buf else None
                raise AnalysisError("layout: condition does not fold in scenario: %s (%s)" % (canon(st.test), e))
            for s in (st.body if v else st.orelse):
                r = self.stmt(s, c, m, loc, depth, buf)
                if isinstance(r, tuple):
                    buf = r[1]
                elif r == "ret":
                    return "ret"
            return ("buf", buf) if buf else None
        if isinstance(st, ast.Return):
            if st.value is not None and isinstance(st.value, ast.Call):
                self.expr_stmt(st.value, c, m, loc, depth, buf)
            return "ret"
        if isinstance(st, ast.Assign) and len(st.targets) == 1 and isinstance(st.targets[0], ast.Name):
            name = st.targets[0].id
            v = st.value
            if isinstance(v, ast.Call) and canon(v.func) == "bytearray" and not v.args:
                return ("buf", name)
            loc[name] = subst_expr(v, loc)
            return None
        if isinstance(st, ast.AugAssign) and isinstance(st.target, ast.Name) and st.target.id == buf \
                and isinstance(st.op, ast.Add):
            v = st.value
            if isinstance(v, ast.Call) and canon(v.func) == "struct.pack":
                fmt = v.args[0].value if isinstance(v.args[0], ast.Constant) else None
                if fmt is None:
                    raise AnalysisError("layout: struct.pack format not literal")
                order = fmt[0] if fmt[0] in "<>!=@" else ""
                codes = fmt[1:] if order else fmt
                if len(codes) != len(v.args) - 1:
                    raise AnalysisError("layout: struct.pack arity")
                for ch, a in zip(codes, v.args[1:]):
                    # (single octets have no byte order: 'B' whatever prefix the format carries)
                    self.emit(struct.calcsize(order + ch), ch if ch in "Bb" else order + ch, subst_expr(a, loc), "pack", st)
                return None
            if isinstance(v, ast.Call) and canon(v.func) in ("bytearray", "bytes") and len(v.args) == 1:
                try:
                    n = self.ev(mod, v.args[0], loc)
                except (Unknown, Raised):
                    raise AnalysisError("layout: padding size does not fold")
                if isinstance(n, int):
                    self.emit(n, "pad", None, "pad", st)
                    return None
            # `buf += <octets>`: the same as buf.extend(<octets>) for a bytearray
            self.emit(None, "seq", subst_expr(v, loc), "extend", st)
            return None
        if isinstance(st, ast.Expr) and isinstance(st.value, ast.Call):
            self.expr_stmt(st.value, c, m, loc, depth, buf)
            return None
        if isinstance(st, (ast.Pass, ast.Assert)):
            return None
        raise AnalysisError("layout: encoder statement outside the vocabulary: %s" % canon(st)[:60])

    def expr_stmt(self, call, c, m, loc, depth, buf):
        f = call.func
        if isinstance(f, ast.Attribute) and isinstance(f.value, ast.Name) and f.value.id == buf:
            if f.attr == "append" and len(call.args) == 1:
                self.emit(1, "B", subst_expr(call.args[0], loc), "append", call)
                return
            if f.attr == "extend" and len(call.args) == 1:
                self.emit(None, "seq", subst_expr(call.args[0], loc), "extend", call)
                return
            raise AnalysisError("layout: buffer method unclassifiable: %s" % canon(call))
        if isinstance(f, ast.Attribute) and isinstance(f.value, ast.Name) and f.value.id == "self":
            c2, m2 = self.repo.find_method(self.ci, f.attr)
            if m2 is None:
                raise AnalysisError("layout: self.%s not found" % f.attr)
            if f.attr == "validate":
                if self.validated_first is None:
                    self.validated_first = not self.segs and buf is None
                return
            args = [canon(a) for a in call.args]
            if buf is not None and buf in args:
                pname = [a.arg for a in m2.args.args][1 + args.index(buf)]
                self.call(c2, m2, {}, depth + 1, bufname=pname)
                return
            return
        # other calls (log etc.) are irrelevant to the layout
        return


def fwd_method(repo, ci, meth, env=None):
    """Return expression of a pure helper method after forward substitution
    under a scenario env (used for gen_mts)."""
    from symfwd import Fwd
    c, m = repo.find_method(ci, meth)
    fw = Fwd(split=True)
    fw.run(m.body)
    return fw


class Dec:
    """interprets parse_msg() of class ci for one scenario: returns dict
    field -> expression AST over the message parameter name `msg`."""

    def __init__(self, repo, ci, ver, has_burst):
        self.repo, self.ci = repo, ci
        self.env = {"self.ver": ver}
        self.has_burst = has_burst
        self.fields = {}
        self.field_nodes = {}
        self.calls = []      # (method name, [arg exprs]) non-inlined helper calls in order
        self.burst_src = None

    def ev(self, mod, e):
        return Ev(self.repo, mod, env=dict(self.env), self_cls=self.ci).ev(e)

    def fold_indices(self, mod, e):
        """index / slice-bound expressions that fold to an integer in this scenario (`hdr[self.CHDR_LEN + 1]`) become
        literals, so that the positional rules see the octet numbers"""
        me = self

        class T(ast.NodeTransformer):
            def visit_Subscript(self_, n):
                self_.generic_visit(n)

                def k(x):
                    if x is None or isinstance(x, ast.Constant):
                        return x
                    try:
                        v = me.ev(mod, x)
                    except (Unknown, Raised, AnalysisError):
                        return x
                    if isinstance(v, int) and not isinstance(v, bool):
                        return ast.copy_location(ast.Constant(value=v), x)
                    return x
                if isinstance(n.slice, ast.Slice):
                    n.slice = ast.Slice(lower=k(n.slice.lower), upper=k(n.slice.upper), step=n.slice.step)
                else:
                    n.slice = k(n.slice)
                return n
        import copy
        return T().visit(copy.deepcopy(e))

    def run(self, meth="parse_msg"):
        c, m = self.repo.find_method(self.ci, meth)
        if m is None:
            raise AnalysisError("%s.%s vanished" % (self.ci.name, meth))
        self.msg = m.args.args[1].arg
        self.call(c, m, {}, 0)
        return self.fields

    def call(self, c, m, loc, depth):
        if depth > 5:
            raise AnalysisError("layout: call depth")
        loc = dict(loc)
        self.block(m.body, c, loc, depth)

    def block(self, stmts, c, loc, depth):
        for st in stmts:
            r = self.stmt(st, c, loc, depth)
            if r == "ret":
                return "ret"
        return None

    def cond(self, test, c, loc):
        """fold a parser condition in the valid-message scenario"""
        t = subst_expr(test, loc)
        txt = canon(t)
        # length guards: the scenario is a complete, valid datagram
        if isinstance(t, ast.Compare) and len(t.ops) == 1 and isinstance(t.left, ast.Call) \
                and canon(t.left.func) == "len" and canon(t.left.args[0]) == self.msg:
            op = t.ops[0]
            rhs = canon(t.comparators[0])
            if isinstance(op, ast.Lt):
                return False
            if isinstance(op, ast.Eq) and rhs == "self.HDR_LEN":
                return not self.has_burst
            if isinstance(op, ast.NotEq) and rhs == "self.HDR_LEN":
                return self.has_burst
            if isinstance(op, ast.Gt) and rhs == "self.HDR_LEN":
                return self.has_burst
        try:
            return bool(self.ev(c.mod, t))
        except (Unknown, Raised) as e:
            raise AnalysisError("layout: parser condition does not fold in scenario: %s" % txt)

    def subst_self(self, e):
        """replace loads of already decoded fields `self.X` by their expression over the message"""
        me = self
        from pyfront import clone

        class T(ast.NodeTransformer):
            def visit_Attribute(self, n):
                if isinstance(n.ctx, ast.Load) and isinstance(n.value, ast.Name) and n.value.id == "self" \
                        and n.attr in me.fields and n.attr != "ver":
                    return clone(me.fields[n.attr])
                return self.generic_visit(n)
        return ast.fix_missing_locations(T().visit(clone(e)))

    def merge_if(self, st, loc):
        """`if c: x = e1 [else: x = e2]` over locals / decoded fields only ->
        {x: IfExp(c, e1, e2 or old x)}; keys 'self.F' denote fields"""
        def key(t):
            if isinstance(t, ast.Name):
                return t.id
            if isinstance(t, ast.Attribute) and isinstance(t.value, ast.Name) and t.value.id == "self":
                return "self." + t.attr
            return None

        def old_of(k, env):
            if k in env:
                return env[k]
            if k.startswith("self.") and k[5:] in self.fields:
                return self.fields[k[5:]]
            return ast.Name(id=k, ctx=ast.Load())

        def assigns(stmts):
            out = {}
            env = dict(loc)
            for s_ in stmts:
                if isinstance(s_, ast.Assign) and len(s_.targets) == 1 and key(s_.targets[0]):
                    k = key(s_.targets[0])
                    env[k] = self.subst_self(subst_expr(s_.value, {a_: b_ for a_, b_ in env.items() if not a_.startswith("self.")}))
                    out[k] = env[k]
                elif isinstance(s_, ast.AugAssign) and key(s_.target):
                    k = key(s_.target)
                    cur = old_of(k, env)
                    rhs = self.subst_self(subst_expr(s_.value, {a_: b_ for a_, b_ in env.items() if not a_.startswith("self.")}))
                    env[k] = ast.BinOp(left=cur, op=s_.op, right=rhs)
                    out[k] = env[k]
                elif isinstance(s_, ast.Pass):
                    pass
                else:
                    return None
            return out
        a, b = assigns(st.body), assigns(st.orelse)
        if a is None or b is None:
            return None
        test = self.subst_self(subst_expr(st.test, loc))
        out = {}
        for k in set(a) | set(b):
            old = old_of(k, loc)
            v = ast.IfExp(test=test, body=a.get(k, old), orelse=b.get(k, old))
            if k.startswith("self."):
                self.fields[k[5:]] = ast.fix_missing_locations(v)
            else:
                out[k] = v
        return out

    def stmt(self, st, c, loc, depth):
        if isinstance(st, ast.Expr) and isinstance(st.value, ast.Constant):
            return None
        if isinstance(st, ast.If):
            try:
                v = self.cond(st.test, c, loc)
            except AnalysisError:
                # a data-dependent `if` that only (re)binds locals is kept as a conditional expression
                merged = self.merge_if(st, loc)
                if merged is None:
                    raise
                loc.update(merged)
                return None
            return self.block(st.body if v else st.orelse, c, loc, depth)
        if isinstance(st, ast.Raise):
            raise AnalysisError("layout: valid-message scenario reaches a raise: %s" % canon(st)[:60])
        if isinstance(st, ast.Return):
            return "ret"
        if isinstance(st, ast.Assign) and len(st.targets) == 1:
            t = st.targets[0]
            v = self.fold_indices(c.mod, subst_expr(st.value, loc))
            if isinstance(t, ast.Name):
                loc[t.id] = v
                return None
            if isinstance(t, ast.Attribute) and isinstance(t.value, ast.Name) and t.value.id == "self":
                self.fields[t.attr] = v
                self.field_nodes[t.attr] = st
                return None
            raise AnalysisError("layout: parser store unclassifiable: %s" % canon(st)[:60])
        if isinstance(st, ast.Expr) and isinstance(st.value, ast.Call):
            call = st.value
            f = call.func
            if isinstance(f, ast.Attribute) and isinstance(f.value, ast.Name) and f.value.id == "self":
                c2, m2 = self.repo.find_method(self.ci, f.attr)
                if m2 is None:
                    raise AnalysisError("layout: self.%s not found" % f.attr)
                args = [subst_expr(a, loc) for a in call.args]
                if f.attr in ("parse_hdr",):
                    ps = [a.arg for a in m2.args.args][1:]
                    loc2 = {p: a for p, a in zip(ps, args)}
                    self.call(c2, m2, loc2, depth + 1)
                    return None
                self.calls.append((f.attr, args, st))
                if f.attr == "parse_burst":
                    self.burst_src = args[0]
                return None
            return None
        if isinstance(st, (ast.Pass, ast.Assert)):
            return None
        raise AnalysisError("layout: parser statement outside the vocabulary: %s" % canon(st)[:60])


# -- bit provenance -----------------------------------------------------------

def bitfields(t):
    """decompose a packed-octet term into [(leaf term, shift, width|None)]"""
    k = t[0]
    if k in ("|", "+"):
        out = []
        for x in t[1:]:
            out += bitfields(x)
        return out
    if k == "*" and len(t) == 3 and X.is_c(t[1]) and t[1][1] > 0 and (t[1][1] & (t[1][1] - 1)) == 0:
        sh = t[1][1].bit_length() - 1
        return [(leaf, s + sh, w) for leaf, s, w in bitfields(t[2])]
    if k == "mod" and X.is_c(t[2]) and t[2][1] > 0 and (t[2][1] & (t[2][1] - 1)) == 0:
        w = t[2][1].bit_length() - 1
        inner = bitfields(t[1])
        if len(inner) == 1 and inner[0][1] == 0:
            return [(inner[0][0], 0, w if inner[0][2] is None else min(w, inner[0][2]))]
        raise AnalysisError("bit provenance: mask over a composite")
    if k == ">>" and X.is_c(t[2]):
        inner = bitfields(t[1])
        if len(inner) == 1:
            leaf, s, w = inner[0]
            return [(leaf, s - t[2][1], w)]
    if k == "c":
        return [(t, 0, None)] if t[1] else []
    return [(t, 0, None)]


def _cidx(e):
    """integer value of a constant index expression (6, 6 + 1, 2 * 3 - 1), else None"""
    if e is None:
        return None
    if isinstance(e, ast.Constant) and isinstance(e.value, int) and not isinstance(e.value, bool):
        return e.value
    if isinstance(e, ast.BinOp) and isinstance(e.op, (ast.Add, ast.Sub, ast.Mult)):
        a, b = _cidx(e.left), _cidx(e.right)
        if a is None or b is None:
            return None
        return a + b if isinstance(e.op, ast.Add) else a - b if isinstance(e.op, ast.Sub) else a * b
    if isinstance(e, ast.UnaryOp) and isinstance(e.op, ast.USub):
        a = _cidx(e.operand)
        return None if a is None else -a
    return None


def byte_ref(e, msg):
    """('byte', k) / ('unpack', fmt, a, b) for an expression reading the message, else None"""
    if isinstance(e, ast.Subscript) and canon(e.value) == msg and not isinstance(e.slice, ast.Slice) \
            and _cidx(e.slice) is not None:
        return ("byte", _cidx(e.slice))
    if isinstance(e, ast.Subscript) and isinstance(e.value, ast.Call) and canon(e.value.func) == "struct.unpack" \
            and isinstance(e.slice, ast.Constant) and e.slice.value == 0:
        u = e.value
        fmt = u.args[0].value if isinstance(u.args[0], ast.Constant) else None
        sl = u.args[1]
        if isinstance(sl, ast.Subscript) and canon(sl.value) == msg and isinstance(sl.slice, ast.Slice):
            lo = 0 if sl.slice.lower is None else _cidx(sl.slice.lower)
            hi = _cidx(sl.slice.upper)
            return ("unpack", fmt, lo, hi)
    return None


def fold_field(repo, mod, expr, msg, off, size, fmt, neg=False):
    """Exhaustive decision for a field decoded from at most two octets by an expression the
    structural classifier does not recognise: the expression is folded for every value of the
    octets it reads and compared with the struct decoding of the same octets.  Returns
    (True, n) | (False, witness) | (None, reason)."""
    refs = set()
    for n in ast.walk(expr):
        if isinstance(n, ast.Subscript) and canon(n.value) == msg:
            if not isinstance(n.slice, ast.Slice) and _cidx(n.slice) is not None:
                refs.add(_cidx(n.slice))
            elif isinstance(n.slice, ast.Slice):
                lo = _cidx(n.slice.lower)
                hi = _cidx(n.slice.upper)
                if lo is None or hi is None:
                    return None, "slice bounds"
                refs.update(range(lo, hi))
            else:
                return None, "index"
        elif isinstance(n, ast.Name) and n.id == msg and not isinstance(getattr(n, "_parent", None), ast.Subscript):
            pass
    if not refs or not refs <= set(range(off, off + size)) or size > 2:
        return None, "reads octets %s outside [%d, %d)" % (sorted(refs), off, off + size)
    import itertools
    n = 0
    for vals in itertools.product(range(256), repeat=size):
        buf = [0] * (off + size)
        for i, v in enumerate(vals):
            buf[off + i] = v
        try:
            got = Ev(repo, mod, env={msg: bytes(buf)}).ev(expr)
        except (Unknown, Raised) as e:
            return None, "does not fold: %s" % e
        want = struct.unpack(fmt, bytes(vals))[0]
        if neg:
            want = -want
        n += 1
        if got != want:
            return False, {"octets": list(vals), "decoded": got, "wire value": want}
    return True, n
