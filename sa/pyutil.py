# Helpers shared by the Python-side rules.

import ast
from pyfront import clone as _clone
import copy

from report import AnalysisError
from pyfront import (CFG, canon, literals, guard_literals, single_defs,
                     calls_in, call_name, qualname, TK, _Subst)


def params(func):
    return [a.arg for a in func.args.args]


def deep_subst(func, extra=None, depth=4, exclude=()):
    """Substitution map for single-definition temporaries of func, closed
    under itself up to `depth`."""
    sd = {k: v for k, v in single_defs(func).items() if k not in exclude}
    if extra:
        sd.update(extra)
    m = dict(sd)
    for _ in range(depth):
        changed = False
        for k, v in list(m.items()):
            names = {n.id for n in ast.walk(v) if isinstance(n, ast.Name)}
            if names & (set(m) - {k}):
                nv = _Subst({a: b for a, b in m.items() if a != k}).visit(_clone(v))
                if ast.dump(nv) != ast.dump(v):
                    m[k] = nv
                    changed = True
        if not changed:
            break
    return m


def find_calls(func, attr=None, name=None):
    """Calls `<x>.attr(...)` or `name(...)` inside func (not nested defs)."""
    out = []
    for c in calls_in(func):
        f = c.func
        if attr is not None and isinstance(f, ast.Attribute) and f.attr == attr:
            out.append(c)
        elif name is not None and isinstance(f, ast.Name) and f.id == name:
            out.append(c)
    return out


def tuple_pos_def(func, name):
    """If local `name` is defined only by tuple-unpacking assignments
    `(a, name, ...) = value`, return list of (position, value AST)."""
    out = []
    for n in ast.walk(func):
        if isinstance(n, ast.Assign):
            for t in n.targets:
                if isinstance(t, (ast.Tuple, ast.List)):
                    for i, e in enumerate(t.elts):
                        if isinstance(e, ast.Name) and e.id == name:
                            out.append((i, n.value))
                elif isinstance(t, ast.Name) and t.id == name:
                    out.append((None, n.value))
    return out


def returns(cfg):
    """(node, value AST or None) for every return; plus implicit fall-off
    (node None) if the normal exit is reachable without a Return."""
    out = []
    for n in cfg.nodes:
        if isinstance(n.ast, ast.Return) and n.kind == "stmt":
            out.append((n, n.ast.value))
    implicit = [p for (p, l) in cfg.exit.pred if not isinstance(p.ast, ast.Return)]
    return out, implicit


def lit_fmt(lits):
    return sorted(("" if p else "not ") + t for (t, p) in lits)


def rel(modname):
    return "%s/%s.py" % (TK, modname)


def stores_to_attr(func, attr):
    out = []
    for n in ast.walk(func):
        if isinstance(n, ast.Attribute) and n.attr == attr and \
                isinstance(n.ctx, (ast.Store, ast.Del)):
            out.append(n)
    return out


def name_of(e):
    return e.id if isinstance(e, ast.Name) else None


def kwarg(call, name, pos=None):
    for k in call.keywords:
        if k.arg == name:
            return k.value
    if pos is not None and pos < len(call.args):
        return call.args[pos]
    return None


def close_subst(m, depth=4):
    """close a substitution map under itself"""
    m = dict(m)
    for _ in range(depth):
        changed = False
        for k, v in list(m.items()):
            names = {n.id for n in ast.walk(v) if isinstance(n, ast.Name)}
            if names & (set(m) - {k}):
                nv = _Subst({a: b for a, b in m.items() if a != k}).visit(_clone(v))
                if ast.dump(nv) != ast.dump(v):
                    m[k] = nv
                    changed = True
        if not changed:
            break
    return m


def branch_subst(stmts):
    """names assigned exactly once (plain assignment) inside `stmts`,
    closed under itself: name -> value AST"""
    cnt, val = {}, {}
    for st in stmts:
        for n in ast.walk(st):
            if isinstance(n, ast.Assign) and len(n.targets) == 1 and isinstance(n.targets[0], ast.Name):
                cnt[n.targets[0].id] = cnt.get(n.targets[0].id, 0) + 1
                val[n.targets[0].id] = n.value
            elif isinstance(n, ast.Name) and isinstance(n.ctx, ast.Store) and not (
                    isinstance(getattr(n, "_parent", None), ast.Assign)):
                cnt[n.id] = cnt.get(n.id, 0) + 2
    return close_subst({k: v for k, v in val.items() if cnt[k] == 1})


def fmt_norm(e):
    """('template with {} placeholders', [argument texts]) for `"..%u.." % x`, f-strings,
    `"..{}..".format(x)` and string concatenations of those / str(x); None if not a formatted string"""
    import re
    if isinstance(e, ast.Constant) and isinstance(e.value, str):
        return e.value.replace("{", "{{").replace("}", "}}"), []
    if isinstance(e, ast.BinOp) and isinstance(e.op, ast.Mod) and isinstance(e.left, ast.Constant) and isinstance(e.left.value, str):
        args = list(e.right.elts) if isinstance(e.right, ast.Tuple) else [e.right]
        tmpl = e.left.value.replace("{", "{{").replace("}", "}}")
        tmpl, n = re.subn(r"%[-#0 +]*\d*(?:\.\d+)?[diouxXsr]", "{}", tmpl)
        tmpl = tmpl.replace("%%", "%")
        if n != len(args):
            return None
        return tmpl, [canon(a) for a in args]
    if isinstance(e, ast.JoinedStr):
        tmpl, args = "", []
        for v in e.values:
            if isinstance(v, ast.Constant):
                tmpl += str(v.value).replace("{", "{{").replace("}", "}}")
            elif isinstance(v, ast.FormattedValue) and v.conversion in (-1, 115) and (
                    v.format_spec is None or (isinstance(v.format_spec, ast.JoinedStr) and len(v.format_spec.values) == 1 and
                                              isinstance(v.format_spec.values[0], ast.Constant) and
                                              v.format_spec.values[0].value in ("d", "s", ""))):
                # {x:d} prints an integer exactly like %d / %u / {}
                tmpl += "{}"
                args.append(canon(v.value))
            else:
                return None
        return tmpl, args
    if isinstance(e, ast.Call) and isinstance(e.func, ast.Attribute) and e.func.attr == "format" and \
            isinstance(e.func.value, ast.Constant) and isinstance(e.func.value.value, str) and not e.keywords:
        tmpl = re.sub(r"\{\d*\}", "{}", e.func.value.value)
        return tmpl, [canon(a) for a in e.args]
    if isinstance(e, ast.Call) and canon(e.func) == "str" and len(e.args) == 1:
        return "{}", [canon(e.args[0])]
    if isinstance(e, ast.BinOp) and isinstance(e.op, ast.Add):
        a, b = fmt_norm(e.left), fmt_norm(e.right)
        if a is None or b is None:
            return None
        return a[0] + b[0], a[1] + b[1]
    if isinstance(e, (ast.Name, ast.Attribute, ast.Call, ast.Subscript)):
        return "{}", [canon(e)]
    return None


# ---------------------------------------------------------------- ownership of returned buffers

FRESH_CALLS = {"bytearray", "bytes", "list", "dict", "set", "tuple", "struct.pack", "array.array", "array",
               "str", "int", "len", "sorted", "bytes.fromhex", "bytearray.fromhex", "copy.copy", "copy.deepcopy"}
FRESH_METHODS = {"copy", "join", "encode", "decode", "to_bytes", "tobytes", "hex", "format", "pack"}


def return_origins(repo, ci, func, depth=0, _seen=None, exprs=None):
    """Ownership of what `func` (a method of ci, or a module function when ci is None) returns - or, when `exprs` is
    given, of those expressions evaluated inside func.
    Yields (kind, node, text): kind in
       'fresh'   the value is created during the call (constructor, display, concatenation, slice copy, immutable
                 constant) - the caller owns it
       'shared'  the value is (an alias of) storage that outlives the call: an instance/class/module attribute or a
                 module-level name
       'param'   the value is one of the arguments
       'unknown' not classifiable (caller decides: no verdict)"""
    _seen = _seen if _seen is not None else set()
    key = (id(func),)
    if key in _seen or depth > 4:
        yield ("unknown", func, "recursion/depth")
        return
    _seen = _seen | {key}
    pnames = set(params(func))
    if func.args.vararg:
        pnames.add(func.args.vararg.arg)
    if func.args.kwarg:
        pnames.add(func.args.kwarg.arg)
    pnames |= {a.arg for a in func.args.kwonlyargs}
    assigned = {}
    for n in ast.walk(func):
        if isinstance(n, (ast.FunctionDef, ast.Lambda)) and n is not func:
            continue
        if isinstance(n, ast.Assign):
            for t in n.targets:
                if isinstance(t, ast.Name):
                    assigned.setdefault(t.id, []).append(n.value)
                elif isinstance(t, (ast.Tuple, ast.List)):
                    for e in t.elts:
                        if isinstance(e, ast.Name):
                            assigned.setdefault(e.id, []).append(None)     # element of an unpacked value
        elif isinstance(n, ast.AnnAssign) and isinstance(n.target, ast.Name) and n.value is not None:
            assigned.setdefault(n.target.id, []).append(n.value)
        elif isinstance(n, (ast.For, ast.comprehension)) and isinstance(n.target, ast.Name):
            assigned.setdefault(n.target.id, []).append(None)
        elif isinstance(n, ast.With):
            for it in n.items:
                if isinstance(it.optional_vars, ast.Name):
                    assigned.setdefault(it.optional_vars.id, []).append(None)

    def origin(e, stack):
        if e is None:
            yield ("unknown", func, "unpacked/loop value")
            return
        if isinstance(e, (ast.Constant, ast.JoinedStr, ast.Compare)):
            yield ("fresh", e, canon(e))
            return
        if isinstance(e, ast.BoolOp):
            for v in e.values:
                for r in origin(v, stack):
                    yield r
            return
        if isinstance(e, (ast.List, ast.Tuple, ast.Dict, ast.Set, ast.ListComp, ast.DictComp, ast.SetComp,
                          ast.GeneratorExp, ast.BinOp, ast.UnaryOp)):
            yield ("fresh", e, canon(e))
            return
        if isinstance(e, ast.IfExp):
            for b in (e.body, e.orelse):
                for r in origin(b, stack):
                    yield r
            return
        if isinstance(e, ast.Subscript):
            if isinstance(e.slice, ast.Slice):
                # slicing bytes/bytearray/list/tuple/str copies (a memoryview slice would not: classify by base)
                base = e.value
                if isinstance(base, ast.Call) and canon(base.func) == "memoryview":
                    yield ("unknown", e, canon(e))
                elif isinstance(base, ast.Name) and base.id in pnames and base.id not in assigned:
                    # a slice of an argument copies for bytes / bytearray / list, but is a VIEW of the caller's storage
                    # when the argument is a memoryview: the argument's owner decides
                    yield ("param", e, "slice of the argument %s" % base.id)
                else:
                    yield ("fresh", e, canon(e))
            else:
                yield ("unknown", e, canon(e))
            return
        if isinstance(e, ast.Name):
            if e.id in stack:
                return
            if e.id in assigned:
                for v in assigned[e.id]:
                    for r in origin(v, stack | {e.id}):
                        yield r
                if e.id in pnames:
                    yield ("param", e, e.id)
                return
            if e.id in pnames:
                yield ("param", e, e.id)
                return
            if e.id in ("None", "True", "False"):
                yield ("fresh", e, e.id)
                return
            yield ("shared", e, "module-level name %s" % e.id)
            return
        if isinstance(e, ast.Attribute):
            yield ("shared", e, "attribute %s" % canon(e))
            return
        if isinstance(e, ast.Call):
            fn = canon(e.func)
            if fn == "getattr" and len(e.args) >= 2:
                yield ("shared", e, "attribute %s" % canon(e)[:50])
                if len(e.args) == 3:
                    for r in origin(e.args[2], stack):
                        yield r
                return
            if fn in FRESH_CALLS:
                yield ("fresh", e, canon(e)[:60])
                return
            if isinstance(e.func, ast.Attribute) and e.func.attr in FRESH_METHODS:
                yield ("fresh", e, canon(e)[:60])
                return
            # a method of the same class / a module function: follow its returns
            tgt = None
            if isinstance(e.func, ast.Attribute) and isinstance(e.func.value, ast.Name) \
                    and e.func.value.id in ("self", "cls") and ci is not None:
                c2, m2 = repo.find_method(ci, e.func.attr)
                if m2 is not None:
                    tgt = (c2, m2)
            elif isinstance(e.func, ast.Name) and ci is not None:
                r = repo.lookup(ci.mod, e.func.id)
                if r is not None and r[0] == "func":
                    tgt = (None, r[1])
                elif r is not None and r[0] == "class":
                    yield ("fresh", e, "new %s object" % e.func.id)
                    return
            if tgt is not None:
                for r in return_origins(repo, tgt[0] or ci, tgt[1], depth + 1, _seen):
                    r = r[:3]
                    if r[0] == "param":
                        yield ("unknown", e, "returns an argument of %s" % fn)
                    else:
                        yield r
                return
            yield ("unknown", e, canon(e)[:60])
            return
        yield ("unknown", e, canon(e)[:60])

    if exprs is not None:
        for e_ in exprs:
            for r in origin(e_, frozenset()):
                yield r + (e_,)
        return
    nret = 0
    for n in ast.walk(func):
        if isinstance(n, ast.Return) and n.value is not None:
            nret += 1
            for r in origin(n.value, frozenset()):
                yield r + (n,)
    if nret == 0:
        yield ("fresh", func, "no value returned", func)


# ---------------------------------------------------------------- owners of code inside new helpers

def owners(mod, node):
    """Qualified names of the functions on whose behalf `node` executes: its enclosing function, or - when that is
    a helper introduced after the pinned commit (name not in spec/baseline_names.json) that could not be inlined -
    the baseline functions of the module that (transitively) call it. Who-may-write / who-may-call rules compare
    this set with their allowed owners, so moving a store into a private helper of an allowed owner is not a
    new writer."""
    from inline import baseline
    base = baseline().get(mod.name)
    fd = node
    while fd is not None and not isinstance(fd, ast.FunctionDef):
        fd = getattr(fd, "_parent", None)
    if fd is None or base is None or fd.name in base:
        return {qualname(node)}
    out, seen, work = set(), set(), [fd]
    while work:
        h = work.pop()
        if id(h) in seen:
            continue
        seen.add(id(h))
        callers = []
        for f2 in ast.walk(mod.tree):
            if not isinstance(f2, ast.FunctionDef) or f2 is h:
                continue
            for c in ast.walk(f2):
                if isinstance(c, ast.Call):
                    fn = c.func
                    nm = fn.attr if isinstance(fn, ast.Attribute) else fn.id if isinstance(fn, ast.Name) else None
                    if nm == h.name:
                        callers.append(f2)
                        break
        if not callers and _uncalled_anywhere(mod, h):
            continue        # new API that nothing in the toolkit calls: it executes on nobody's behalf
        if not callers:
            out.add(qualname(h.body[0]) if h.body else h.name)
        for f2 in callers:
            if f2.name in base:
                out.add(qualname(f2.body[0]))
            else:
                work.append(f2)
    return out


def _uncalled_anywhere(mod, h):
    """True when no call site of the toolkit can reach the method/function `h` (defined in module `mod`): calls are matched by
    name; a call `<recv>.name(..)` counts unless the receiver is known to hold something else - an attribute that is only ever
    assigned objects of other classes (`self.sock = socket.socket(..)`, `self.f = open(..)`), a local bound to such an
    attribute / constructor, or a loop variable over a display of such attributes.  References to the method as a value
    (`cb = obj.name`) count as calls."""
    import ast as _ast
    repo = getattr(mod, "repo", None)
    mods = list(repo.tk_modules()) if repo is not None else [mod]
    cls = getattr(h, "_parent", None)
    cname = cls.name if isinstance(cls, _ast.ClassDef) else None
    # classes of the helper's family (by name): the class, its bases and subclasses anywhere in the toolkit
    fam = set()
    if cname is not None:
        fam.add(cname)
        changed = True
        classes = [(c.name, [canon_name(b) for b in c.bases]) for m in mods for c in _ast.walk(m.tree) if isinstance(c, _ast.ClassDef)]
        while changed:
            changed = False
            for n_, bases in classes:
                if n_ not in fam and any(b in fam for b in bases):
                    fam.add(n_); changed = True
                if n_ in fam:
                    for b in bases:
                        if b not in fam and any(b == x for x, _ in classes):
                            fam.add(b); changed = True
    # attribute name -> constructor names assigned to it
    at = {}
    for m in mods:
        for n in _ast.walk(m.tree):
            if isinstance(n, _ast.Assign) and isinstance(n.value, _ast.Call):
                cn = canon_name(n.value.func)
                for t in n.targets:
                    if isinstance(t, _ast.Attribute):
                        at.setdefault(t.attr, set()).add(cn)
            elif isinstance(n, _ast.Assign) and not isinstance(n.value, _ast.Constant):
                for t in n.targets:
                    if isinstance(t, _ast.Attribute):
                        at.setdefault(t.attr, set()).add("?")

    # structural filter: what is done with the objects an attribute holds (`x.A.read(..)`, `x.A.seek(..)`) must be something
    # the helper's class family offers, else the attribute cannot hold one of its objects
    uses = {}
    for m in mods:
        for n in _ast.walk(m.tree):
            if isinstance(n, _ast.Attribute) and isinstance(n.value, _ast.Attribute):
                uses.setdefault(n.value.attr, set()).add(n.attr)
    members = set()
    for m in mods:
        for c in _ast.walk(m.tree):
            if isinstance(c, _ast.ClassDef) and c.name in fam:
                for x in _ast.walk(c):
                    if isinstance(x, _ast.FunctionDef):
                        members.add(x.name)
                    elif isinstance(x, _ast.Attribute) and isinstance(x.value, _ast.Name) and x.value.id in ("self", "cls"):
                        members.add(x.attr)
                    elif isinstance(x, _ast.Assign):
                        members.update(t.id for t in x.targets if isinstance(t, _ast.Name))

    def may_be(recv, fd, depth=0):
        if cname is None:
            return True
        if isinstance(recv, _ast.Name) and recv.id in ("self", "cls"):
            c_ = fd
            while c_ is not None and not isinstance(c_, _ast.ClassDef):
                c_ = getattr(c_, "_parent", None)
            return c_ is None or c_.name in fam
        if isinstance(recv, _ast.Attribute):
            srcs = at.get(recv.attr)
            if not (uses.get(recv.attr, set()) <= members):
                return False
            if not srcs or "?" in srcs:
                return True
            return any(x.split(".")[-1] in fam for x in srcs)
        if isinstance(recv, _ast.Call):
            return canon_name(recv.func).split(".")[-1] in fam or canon_name(recv.func).split(".")[-1][:1].islower()
        if isinstance(recv, _ast.Name) and fd is not None and depth < 3:
            defs = []
            for n in _ast.walk(fd):
                if isinstance(n, _ast.Assign) and any(isinstance(t, _ast.Name) and t.id == recv.id for t in n.targets):
                    defs.append(n.value)
                elif isinstance(n, (_ast.For, _ast.comprehension)) and isinstance(n.target, _ast.Name) and n.target.id == recv.id:
                    it = n.iter
                    if isinstance(it, _ast.Name):
                        its = [a.value for a in _ast.walk(fd) if isinstance(a, _ast.Assign) and any(isinstance(t, _ast.Name) and t.id == it.id for t in a.targets)]
                        it = its[0] if len(its) == 1 else it
                    if isinstance(it, (_ast.List, _ast.Tuple)):
                        defs.extend(it.elts)
                        # elements appended later: `links.append(x)`
                        for a in _ast.walk(fd):
                            if isinstance(a, _ast.Call) and isinstance(a.func, _ast.Attribute) and a.func.attr == "append" and a.args \
                                    and isinstance(n.iter, _ast.Name) and canon_name(a.func.value) == n.iter.id:
                                defs.append(a.args[0])
                    else:
                        return True
            if not defs:
                return True     # a parameter / unknown
            return any(may_be(d, fd, depth + 1) for d in defs)
        return True
    for m in mods:
        for f2 in _ast.walk(m.tree):
            if not isinstance(f2, _ast.FunctionDef) or f2 is h:
                continue
            called = {id(c.func) for c in _ast.walk(f2) if isinstance(c, _ast.Call)}
            for x in _ast.walk(f2):
                if isinstance(x, _ast.Attribute) and x.attr == h.name and isinstance(x.ctx, _ast.Load):
                    if may_be(x.value, f2):
                        return False
                elif isinstance(x, _ast.Name) and x.id == h.name and isinstance(x.ctx, _ast.Load) and cname is None:
                    return False
        # module-level statements
        for st in m.tree.body:
            if isinstance(st, (_ast.FunctionDef, _ast.ClassDef)):
                continue
            for x in _ast.walk(st):
                if isinstance(x, _ast.Attribute) and x.attr == h.name and may_be(x.value, None):
                    return False
                if isinstance(x, _ast.Name) and x.id == h.name and cname is None:
                    return False
    return True


def unalias_callables(fd):
    """`wait = self._breaker.wait` ... `wait(x)`: a local bound exactly once, to an attribute chain (no call, no subscript), that
    is only ever CALLED afterwards stands for that attribute chain - call sites are rewritten to the chain (in place) and the
    binding statement is dropped.  (The attribute lookup happens once instead of at every call: the same callable as long as
    nothing rebinds an attribute of the chain; rules that care check that separately.)  -> list of unaliased names"""
    import ast as _ast
    import copy as _copy
    binds = {}
    for n in _ast.walk(fd):
        if isinstance(n, _ast.Assign) and len(n.targets) == 1 and isinstance(n.targets[0], _ast.Name):
            binds.setdefault(n.targets[0].id, []).append(n)
        elif isinstance(n, (_ast.AugAssign, _ast.AnnAssign)) and isinstance(n.target, _ast.Name):
            binds.setdefault(n.target.id, []).append(None)
        elif isinstance(n, (_ast.For, _ast.comprehension)) :
            for t in _ast.walk(n.target):
                if isinstance(t, _ast.Name):
                    binds.setdefault(t.id, []).append(None)

    def chain(e):
        while isinstance(e, _ast.Attribute):
            e = e.value
        return isinstance(e, _ast.Name)
    out = []
    for name, bs in binds.items():
        if len(bs) != 1 or bs[0] is None or not isinstance(bs[0].value, _ast.Attribute) or not chain(bs[0].value):
            continue
        if name in [a.arg for a in fd.args.args]:
            continue
        uses = [n for n in _ast.walk(fd) if isinstance(n, _ast.Name) and n.id == name and isinstance(n.ctx, _ast.Load)]
        called = {id(c.func) for c in _ast.walk(fd) if isinstance(c, _ast.Call)}
        if not uses or not all(id(u) in called for u in uses):
            continue
        val = bs[0].value

        class Rw(_ast.NodeTransformer):
            def visit_Call(self_, node):
                self_.generic_visit(node)
                if isinstance(node.func, _ast.Name) and node.func.id == name:
                    node.func = _ast.copy_location(_copy.deepcopy(val), node.func)
                return node

            def visit_Assign(self_, node):
                if node is bs[0]:
                    return _ast.copy_location(_ast.Pass(), node)
                self_.generic_visit(node)
                return node
        Rw().visit(fd)
        _ast.fix_missing_locations(fd)
        for x in _ast.walk(fd):
            for ch in _ast.iter_child_nodes(x):
                ch._parent = x
        out.append(name)
    return out


def canon_name(e):
    import ast as _ast
    try:
        return _ast.unparse(e)
    except Exception:
        return "?"


# ---------------------------------------------------------------- class invariants from constructor refusals

def ctor_invariants(repo, ci):
    """Conditions a constructed object can never satisfy: for every `if C: raise ...` of the constructor whose
    condition reads only attributes of self that nothing but the constructor stores, the literals of C (taken true)
    can never hold together later. Returns a list of frozensets of (text, polarity) literals."""
    inits = [c.methods["__init__"] for c in repo.mro(ci) if "__init__" in c.methods]
    if not inits:
        return []
    ctor_only = {}

    def is_ctor_only(attr):
        if attr not in ctor_only:
            ok = True
            for m in repo.tk_modules():
                for n in ast.walk(m.tree):
                    if isinstance(n, ast.Attribute) and n.attr == attr and isinstance(n.ctx, (ast.Store, ast.Del)):
                        q = n
                        while q is not None and not isinstance(q, ast.FunctionDef):
                            q = getattr(q, "_parent", None)
                        if q is None or q.name != "__init__":
                            ok = False
            ctor_only[attr] = ok
        return ctor_only[attr]
    out = []
    for n in [x for init in inits for x in ast.walk(init)]:
        if isinstance(n, ast.If) and n.body and isinstance(n.body[-1], ast.Raise) and not n.orelse:
            lits = literals(n.test, True)
            if not lits:
                continue
            attrs = {x.attr for x in ast.walk(n.test) if isinstance(x, ast.Attribute) and isinstance(x.value, ast.Name)
                     and x.value.id == "self"}
            names = {x.id for x in ast.walk(n.test) if isinstance(x, ast.Name)} - {"self", "None", "True", "False", "isinstance", "int", "len"}
            if names or not attrs or not all(is_ctor_only(a) for a in attrs):
                continue
            out.append(frozenset(lits))
    return out


def memo_sound(L, repo, rule, modnames):
    """Memoised methods (functools.cached_property / lru_cache / cache) of the given toolkit modules return what a
    fresh evaluation would return only if nothing they read changes after the first call.  For every such method: the
    instance attributes it reads - directly, through other properties and through methods of its class - must not be
    stored after construction (by any method of the class hierarchy other than __init__, by setattr, or from outside
    through `obj.attr = ...` anywhere in the toolkit), and it must not draw random numbers.  A memoised value that
    depends on a field the decoder re-assigns (the header version, the burst) is stale on the second use of the
    object."""
    import ast as _ast
    from pyfront import canon, calls_in
    n = 0
    for mn in modnames:
        if not repo.has_mod(mn):
            continue
        mod = repo.mod(mn)
        for cname, fd, deco in getattr(mod, "memoised", []):
            n += 1
            ci = mod.classes.get(cname) if cname is not None else None
            if ci is None and cname is not None:
                continue
            # classes that share the instance: the hierarchy above and the subclasses in the toolkit
            family = list(repo.mro(ci)) if ci is not None else []       # (a module-level function reads no instance)
            for m2 in repo.tk_modules():
                for c2 in m2.classes.values():
                    if ci is not None and c2 not in family and any(x.name == ci.name for x in repo.mro(c2)):
                        family.append(c2)
            meths = {}
            for c_ in reversed(family):
                for k, v in c_.methods.items():
                    meths.setdefault(k, []).append((c_, v))
            reads, seen, work = set(), set(), [fd]
            rnd = []
            while work:
                f_ = work.pop()
                if id(f_) in seen:
                    continue
                seen.add(id(f_))
                for x in _ast.walk(f_):
                    if isinstance(x, _ast.Attribute) and isinstance(x.value, _ast.Name) and x.value.id in ("self", "cls") and isinstance(x.ctx, _ast.Load):
                        if x.attr in meths:
                            for _c, m_ in meths[x.attr]:
                                work.append(m_)
                        else:
                            reads.add(x.attr)
                    if isinstance(x, _ast.Call) and canon(x.func).startswith("random."):
                        rnd.append(canon(x)[:40])
            writers = {}
            for c_ in family:
                for k, m_ in c_.methods.items():
                    if k == "__init__":
                        continue
                    for x in _ast.walk(m_):
                        if isinstance(x, _ast.Attribute) and isinstance(x.ctx, (_ast.Store, _ast.Del)) and isinstance(x.value, _ast.Name) \
                                and x.value.id == "self" and x.attr in reads:
                            writers.setdefault(x.attr, set()).add("%s.%s" % (c_.name, k))
                        if isinstance(x, _ast.Call) and canon(x.func) == "setattr" and len(x.args) == 3 and canon(x.args[0]) == "self":
                            a = x.args[1]
                            if not isinstance(a, _ast.Constant) or a.value in reads:
                                writers.setdefault(a.value if isinstance(a, _ast.Constant) else "<computed name>", set()).add("%s.%s" % (c_.name, k))
            for m2 in repo.tk_modules():
                for x in _ast.walk(m2.tree):
                    if isinstance(x, _ast.Attribute) and isinstance(x.ctx, (_ast.Store, _ast.Del)) and x.attr in reads \
                            and not (isinstance(x.value, _ast.Name) and x.value.id == "self"):
                        writers.setdefault(x.attr, set()).add("%s (`%s = ...`)" % (m2.name, canon(x)))
            fn = "%s.%s" % (cname, fd.name) if cname is not None else fd.name
            L.fn(mod.rel, fn)
            L.ob(rule, mod.rel, fn, "@%s: the memoised value depends on no attribute that is stored after construction" % deco,
                 {}, {k: sorted(v)[:3] for k, v in sorted(writers.items())}, not writers, fd.lineno)
            L.ob(rule, mod.rel, fn, "@%s: the memoised value is not random" % deco, [], rnd[:3], not rnd, fd.lineno)
            # a cached MUTABLE object is one object for every caller with the same arguments: what one caller changes
            # in place (request.insert(...), buf += ...) the next one finds changed
            mut = []
            for r_ in [x for x in _ast.walk(fd) if isinstance(x, _ast.Return) and x.value is not None]:
                v_ = r_.value
                seen_n = set()
                while isinstance(v_, _ast.Name) and v_.id not in seen_n:
                    seen_n.add(v_.id)
                    defs_ = [x for x in _ast.walk(fd) if isinstance(x, _ast.Assign) and any(isinstance(t, _ast.Name) and t.id == v_.id for t in x.targets)
                             and x.lineno <= r_.lineno]
                    if not defs_:
                        break
                    # (straight-line code: the binding closest above the return; any of several bindings being mutable is enough)
                    defs_.sort(key=lambda x: x.lineno)
                    v_ = defs_[-1].value
                if isinstance(v_, (_ast.List, _ast.Dict, _ast.Set, _ast.ListComp, _ast.DictComp, _ast.SetComp)):
                    mut.append(canon(r_.value)[:40] + " (a " + type(v_).__name__.lower() + ")")
                elif isinstance(v_, _ast.Call) and (canon(v_.func) in ("list", "dict", "set", "bytearray", "array")
                                                   or (isinstance(v_.func, _ast.Attribute) and v_.func.attr in ("split", "rsplit", "splitlines", "copy"))):
                    mut.append(canon(r_.value)[:40] + " (built by %s)" % canon(v_.func)[-20:])
            L.ob(rule, mod.rel, fn, "@%s: what is handed out of the cache is immutable" % deco, [], mut[:3], not mut, fd.lineno)
    return n


_MUTATORS = {"append", "extend", "insert", "add", "remove", "discard", "clear", "pop", "popleft", "appendleft", "update", "setdefault", "sort", "reverse"}


def instance_state(L, repo, rule, modname, clsname, what):
    """Containers an object mutates in place must be the object's own: for every attribute A of the class that is mutated
    through an instance (`self.A.append(..)`, `x.A.add_trx(..)`, `self.A[k] = v` - anywhere in the toolkit; methods named
    add_* / del_* / remove_* of toolkit classes count as mutators), `__init__` stores a FRESH container into it on every
    path to its normal exit (a display, a constructor call, `param or <fresh>` with a None-default parameter).  A
    class-level container, or a mutable default argument stored as is, is one object shared by all instances: what
    one transceiver's children / queue / list receives, every other instance sees."""
    import ast as _ast
    from pyfront import canon, CFG, calls_in
    from report import AnalysisError
    ci = repo.need_class(modname, clsname)
    mod = ci.mod
    init = ci.methods.get("__init__")
    fn = "%s.%s" % (clsname, "__init__")
    L.fn(mod.rel, fn)
    own_attrs = set()
    for m_ in ci.methods.values():
        for x in _ast.walk(m_):
            if isinstance(x, _ast.Attribute) and isinstance(x.value, _ast.Name) and x.value.id == "self":
                own_attrs.add(x.attr)
    for st in ci.node.body:
        if isinstance(st, _ast.Assign):
            for t in st.targets:
                if isinstance(t, _ast.Name):
                    own_attrs.add(t.id)
    mutated = {}
    for m2 in repo.tk_modules():
        for x in _ast.walk(m2.tree):
            tgt = None
            if isinstance(x, _ast.Call) and isinstance(x.func, _ast.Attribute) and isinstance(x.func.value, _ast.Attribute):
                mname = x.func.attr
                if mname in _MUTATORS or mname.startswith(("add_", "del_", "remove_", "append_")):
                    tgt = x.func.value
            elif isinstance(x, _ast.Subscript) and isinstance(x.ctx, (_ast.Store, _ast.Del)) and isinstance(x.value, _ast.Attribute):
                tgt = x.value
            elif isinstance(x, _ast.AugAssign) and isinstance(x.target, _ast.Attribute) and isinstance(x.op, _ast.Add) \
                    and isinstance(x.value, (_ast.List, _ast.ListComp)):
                tgt = x.target
            if tgt is None or tgt.attr not in own_attrs:
                continue
            # receiver `self`: only inside this class or a subclass (another class's own attribute of the same name is
            # not ours); any other receiver expression: taken as an object of this class when the attribute name is ours
            if isinstance(tgt.value, _ast.Name) and tgt.value.id == "self":
                f_ = x
                while f_ is not None and not isinstance(f_, _ast.ClassDef):
                    f_ = getattr(f_, "_parent", None)
                c2 = m2.classes.get(f_.name) if f_ is not None else None
                if c2 is None or not any(c.name == clsname for c in repo.mro(c2)):
                    continue
            mutated.setdefault(tgt.attr, []).append("%s:%s" % (m2.name, canon(x)[:50]))
    n = 0
    if init is None:
        raise AnalysisError("%s has no __init__: instance state cannot be decided" % clsname)
    cfg = CFG(init)
    a_ = init.args
    dflt = dict(zip([p.arg for p in a_.args[len(a_.args) - len(a_.defaults):]], a_.defaults))

    def fresh(v):
        if isinstance(v, (_ast.List, _ast.Dict, _ast.Set, _ast.ListComp, _ast.DictComp, _ast.SetComp)):
            return True, "display"
        if isinstance(v, _ast.Call):
            # a constructor / factory call makes a new object unless it is handed a shared one to wrap - not our business
            return True, "call"
        if isinstance(v, _ast.BoolOp) and isinstance(v.op, _ast.Or) and len(v.values) == 2:
            a, b = v.values
            okb, _w = fresh(b)
            if isinstance(a, _ast.Name) and okb:
                d = dflt.get(a.id, "nodefault")
                if d == "nodefault" or (isinstance(d, _ast.Constant) and d.value is None):
                    return True, "caller's object or a fresh one"
        if isinstance(v, _ast.IfExp):
            ok1, _ = fresh(v.body)
            ok2, _ = fresh(v.orelse)
            pnames = [x for x in (v.body, v.orelse) if isinstance(x, _ast.Name) and x.id in [p.arg for p in a_.args]]
            if (ok1 or v.body in pnames) and (ok2 or v.orelse in pnames) and all(
                    dflt.get(x.id, "nodefault") == "nodefault" or (isinstance(dflt.get(x.id), _ast.Constant) and dflt[x.id].value is None) for x in pnames):
                return True, "caller's object or a fresh one"
        if isinstance(v, _ast.Name) and v.id in [p.arg for p in a_.args]:
            d = dflt.get(v.id, "nodefault")
            if d == "nodefault" or (isinstance(d, _ast.Constant) and d.value is None):
                return True, "caller's object"
            if isinstance(d, (_ast.List, _ast.Dict, _ast.Set, _ast.Call)):
                return False, "the parameter's mutable default `%s` (one object for all calls)" % canon(d)
        return False, "`%s`" % canon(v)[:50]
    for A in sorted(mutated):
        n += 1
        stores = [x for x in _ast.walk(init) if isinstance(x, _ast.Assign) and any(
            isinstance(t, _ast.Attribute) and t.attr == A and isinstance(t.value, _ast.Name) and t.value.id == "self" for t in x.targets)]
        cls_level = [st for st in ci.node.body if isinstance(st, _ast.Assign) and any(isinstance(t, _ast.Name) and t.id == A for t in st.targets)]
        if not stores:
            # inherited constructor may do it
            inh = False
            for c_ in repo.mro(ci)[1:]:
                i2 = c_.methods.get("__init__")
                if i2 is not None and any(isinstance(x, _ast.Attribute) and x.attr == A and isinstance(x.ctx, _ast.Store) for x in _ast.walk(i2)):
                    inh = True
            calls_base = any(canon(c.func).endswith(".__init__") for c in calls_in(init))
            ok = inh and calls_base
            L.ob(rule, mod.rel, fn, "%s: `%s` (mutated in place by %s) is created per instance by the constructor" % (what, A, mutated[A][0]),
                 "self.%s = <fresh container> in __init__" % A,
                 ("created by the base constructor" if ok else "class-level `%s`: one object shared by every instance" % canon(cls_level[0])[:60] if cls_level else "never created in __init__"),
                 ok, init.lineno)
            continue
        oks = []
        for st_ in stores:
            ok_, why = fresh(st_.value)
            dom = cfg.must_pass(cfg.entry, [cfg.node_of(st_)], cfg.exit)
            oks.append((ok_, why, dom))
        good = all(o[0] for o in oks) and any(o[2] for o in oks)
        L.ob(rule, mod.rel, fn, "%s: `%s` (mutated in place by %s) is created per instance by the constructor" % (what, A, mutated[A][0]),
             "a fresh container on every path through __init__", [o[1] for o in oks] + ([] if any(o[2] for o in oks) else ["not on every path"]), good, stores[0].lineno)
    # objects with identity (events, locks, queues, threads) built once in the class body and used through self: one
    # object for every instance unless __init__ replaces it
    IMMUTABLE_CTORS = {"int", "str", "bytes", "tuple", "frozenset", "range", "float", "bool", "re.compile", "struct.Struct",
                       "namedtuple", "collections.namedtuple", "property", "staticmethod", "classmethod", "array", "bytearray"}
    for st in ci.node.body:
        if not (isinstance(st, _ast.Assign) and isinstance(st.value, _ast.Call)):
            continue
        ctor = canon(st.value.func)
        if ctor in IMMUTABLE_CTORS or ctor.split(".")[-1][:1].islower() and ctor.split(".")[-1] not in ("dict", "list", "set", "deque"):
            continue
        for t in st.targets:
            if not isinstance(t, _ast.Name) or t.id in mutated:
                continue
            A = t.id
            used = [x for m_ in ci.methods.values() for x in _ast.walk(m_)
                    if isinstance(x, _ast.Call) and isinstance(x.func, _ast.Attribute) and canon(x.func.value) == "self." + A]
            if not used:
                continue
            own = any(isinstance(x, _ast.Attribute) and x.attr == A and isinstance(x.ctx, _ast.Store) and isinstance(x.value, _ast.Name)
                      and x.value.id == "self" for x in _ast.walk(init))
            n += 1
            L.ob(rule, mod.rel, fn, "%s: `%s` (an object with identity, used as %s) belongs to the instance" % (what, A, canon(used[0])[:40]),
                 "created in __init__", "class-level `%s`: one object shared by every instance" % canon(st)[:60] if not own else "replaced in __init__", own, st.lineno)
    L.floor(rule, "containers of %s mutated in place" % clsname, n, 1)
    return n


# ---------------------------------------------------------------- who may change the negotiated header version

def hdr_ver_ownership(L, repo, rule):
    """The TRXD header version of a DATA interface is NEGOTIATED: it starts at the constructor's value and afterwards
    changes only when the peer asks for it with SETFORMAT.  Decided in two parts: (a) who-may-write over the whole
    toolkit - every store to `._hdr_ver` and every call of a method that stores it (set_hdr_ver and, transitively,
    new setters) executes on behalf of DATAInterface.__init__ / the setter itself / the TRXC command handler
    CTRLInterfaceTRX.parse_cmd; (b) inside the command handler the version is touched for no verb but SETFORMAT:
    the handler is folded for every other documented command with the interface on version 1 and must leave it
    there.  A power event, a tick or a data path that resets or copies the version makes bursts leave in a format the
    recipient did not negotiate and silently undoes an acknowledged SETFORMAT."""
    import ast as _ast, json as _json, os as _os
    from pyfront import canon, qualname
    from report import AnalysisError
    ATTR = "_hdr_ver"
    dci = repo.need_class("data_if", "DATAInterface")
    setters = set()
    for nm, m in dci.methods.items():
        if nm != "__init__" and any(isinstance(x, _ast.Attribute) and x.attr == ATTR and isinstance(x.ctx, (_ast.Store, _ast.Del))
                                    for x in _ast.walk(m)):
            setters.add(nm)
    if "set_hdr_ver" not in setters:
        raise AnalysisError("DATAInterface.set_hdr_ver no longer stores %s: the ownership rule has lost its anchor" % ATTR)
    allowed = {"DATAInterface.__init__", "CTRLInterfaceTRX.parse_cmd"} | {"DATAInterface." + s for s in setters}
    n = 0
    for m2 in repo.tk_modules():
        for x in _ast.walk(m2.tree):
            what = None
            if isinstance(x, _ast.Attribute) and x.attr == ATTR and isinstance(x.ctx, (_ast.Store, _ast.Del)):
                what = "store to %s" % canon(x)
            elif isinstance(x, _ast.Call) and isinstance(x.func, _ast.Attribute) and x.func.attr in setters:
                what = "call %s(..)" % canon(x.func)
            elif isinstance(x, _ast.Call) and isinstance(x.func, _ast.Name) and x.func.id in ("setattr", "delattr") and len(x.args) >= 2 \
                    and isinstance(x.args[1], _ast.Constant) and x.args[1].value == ATTR:
                what = "setattr(.., %r, ..)" % ATTR
            if what is None:
                continue
            n += 1
            who = owners(m2, x)
            L.ob(rule, m2.rel, qualname(x), "the negotiated header version changes only in the constructor, its setter and the "
                 "SETFORMAT handler: %s" % what, "on behalf of " + ", ".join(sorted(allowed)), sorted(who), who <= allowed,
                 getattr(x, "lineno", None))
    L.floor(rule, "stores / setter calls of the header version", n, 3)
    # (b) per-verb fold of the common command handler
    from cmdfold import fold_parse_cmd
    VERIF_ = _os.path.dirname(_os.path.dirname(_os.path.abspath(__file__)))
    spec = _json.load(open(_os.path.join(VERIF_, "spec", "trxc.json")))
    folded = 0
    for verb, d in sorted(spec["verbs"].items()):
        if verb == "SETFORMAT":
            continue
        argcs = d.get("argc") or [d.get("min", 0)]
        for argc in argcs[:2]:
            try:
                f = fold_parse_cmd(repo, [verb] + ["1"] * argc, hdr_ver=1)
            except AnalysisError:
                continue
            folded += 1
            touched = [c_ for c_ in f.calls if c_[0] in setters]
            L.ob(rule, rel("ctrl_if_trx"), "CTRLInterfaceTRX.parse_cmd",
                 "CMD %s with %d argument(s) leaves the negotiated header version alone" % (verb, argc),
                 "version 1 before and after, no setter call", (getattr(f, "hdr_ver", None), [c_[:2] for c_ in touched]),
                 getattr(f, "hdr_ver", 1) == 1 and not touched)
    L.floor(rule, "commands other than SETFORMAT folded for the header version", folded, 8)


# ---------------------------------------------------------------- lock order: no join of a thread under a lock it takes

def _name_callgraph(repo):
    """Name-resolved call graph of the toolkit: `f(..)` -> the module-level function f of the same module;
    `<recv>.m(..)` -> every toolkit method named m (callable attributes such as `self.clck_handler(..)` resolve the same
    way: to the methods of that name that may have been stored there).  Over-approximates the callees."""
    import ast as _ast
    funcs, by_name = {}, {}
    for m in repo.tk_modules():
        for x in _ast.walk(m.tree):
            if isinstance(x, _ast.FunctionDef):
                par = getattr(x, "_parent", None)
                cls = par.name if isinstance(par, _ast.ClassDef) else None
                key = (m.name, cls, x.name)
                funcs[key] = (m, x)
                by_name.setdefault(x.name, []).append(key)

    def callees(node, modname):
        out = set()
        for c in _ast.walk(node):
            if not isinstance(c, _ast.Call):
                continue
            f = c.func
            if isinstance(f, _ast.Name):
                out |= {k for k in by_name.get(f.id, []) if k[1] is None}
                # a class being instantiated runs its constructor
                for k in by_name.get("__init__", []):
                    if k[1] == f.id:
                        out.add(k)
            elif isinstance(f, _ast.Attribute):
                out |= {k for k in by_name.get(f.attr, []) if k[1] is not None}
        return out
    return funcs, callees


def lock_join_order(L, repo, rule):
    """A thread must not be joined while a lock is held that the joined thread's own code acquires: if the thread is
    waiting for that lock at this moment, neither side ever continues (the command that triggered the join - POWEROFF
    stopping the clock generator - is never answered and the generator thread never ends).  Decided on the
    name-resolved call graph: for every `with <lock attribute>` region of the toolkit, the functions reachable from the
    region's body; for every `threading.Thread(target = T)`, the functions reachable from T and the lock attributes
    they take; a `<thread attr>.join()` reachable from a region whose lock the thread's code takes is reported."""
    import ast as _ast
    from pyfront import canon, qualname
    funcs, callees = _name_callgraph(repo)

    def reach(start_nodes, modname):
        seen, work = set(), []
        for nd in start_nodes:
            work.extend(callees(nd, modname))
        while work:
            k = work.pop()
            if k in seen:
                continue
            seen.add(k)
            m_, fd_ = funcs[k]
            work.extend(callees(fd_, m_.name))
        return seen

    def lock_attr(expr):
        # `self._tx_queue_lock` / `trx._tx_queue_lock`: identified by the attribute name
        return expr.attr if isinstance(expr, _ast.Attribute) else None
    # lock attributes: assigned from threading.Lock() / RLock()
    locks = set()
    threads = []            # (mod, Thread(...) call, target expr)
    for m in repo.tk_modules():
        for x in _ast.walk(m.tree):
            if isinstance(x, _ast.Assign) and isinstance(x.value, _ast.Call):
                cn = canon(x.value.func)
                if cn.split(".")[-1] in ("Lock", "RLock"):
                    for t in x.targets:
                        if isinstance(t, _ast.Attribute):
                            locks.add(t.attr)
                if cn.split(".")[-1] == "Thread":
                    tgt = next((k.value for k in x.value.keywords if k.arg == "target"), None)
                    threads.append((m, x, tgt))
    L.floor(rule, "lock attributes / thread objects of the toolkit", len(locks) + len(threads), 2)
    # what each thread's code locks
    thread_locks = set()
    for m, asg, tgt in threads:
        if tgt is None:
            continue
        fake = _ast.Call(func=tgt, args=[], keywords=[])
        for k in reach([fake], m.name):
            for w in _ast.walk(funcs[k][1]):
                if isinstance(w, _ast.With):
                    for it in w.items:
                        a_ = lock_attr(it.context_expr)
                        if a_ in locks:
                            thread_locks.add(a_)
                elif isinstance(w, _ast.Call) and isinstance(w.func, _ast.Attribute) and w.func.attr == "acquire" \
                        and lock_attr(w.func.value) in locks:
                    thread_locks.add(lock_attr(w.func.value))
    thread_attrs = {t.attr for m, asg, tgt in threads for t in asg.targets if isinstance(t, _ast.Attribute)}

    def joins(fd):
        for c in _ast.walk(fd):
            if isinstance(c, _ast.Call) and isinstance(c.func, _ast.Attribute) and c.func.attr == "join" \
                    and isinstance(c.func.value, _ast.Attribute) and c.func.value.attr in thread_attrs:
                yield c
    n_regions = 0
    for m in repo.tk_modules():
        for w in _ast.walk(m.tree):
            if not isinstance(w, _ast.With):
                continue
            held = {lock_attr(it.context_expr) for it in w.items} & locks
            if not held:
                continue
            n_regions += 1
            body = _ast.Module(body=w.body, type_ignores=[])
            found = [("%s: %s" % (qualname(c), canon(c))) for c in joins(body)]
            for k in reach([body], m.name):
                found += ["%s.%s: %s" % (k[1], k[2], canon(c)) for c in joins(funcs[k][1])]
            bad = sorted(set(found)) if held & thread_locks else []
            L.ob(rule, m.rel, qualname(w), "no thread that takes `%s` is joined while it is held (`with %s` region)" % (
                 "/".join(sorted(held)), canon(w.items[0].context_expr)), "no reachable join()", bad, not bad, w.lineno)
    L.floor(rule, "lock regions of the toolkit", n_regions, 1)
    L.extra["%s_thread_locks" % rule] = sorted(thread_locks)


# ---------------------------------------------------------------- one-shot iterators kept as "constants"

def oneshot_constants(L, repo, rule, modnames):
    """A generator expression (or map / filter / zip / iter / reversed / enumerate object) bound at module or class level
    is consumed by its first use: a membership test or loop in a function sees its elements once per process, every
    later call sees an exhausted iterator (`x in LENS` is True for the first padded burst only).  Every such binding
    that a function of the listed modules reads is reported; a tuple / list / set / frozenset built from it is fine."""
    import ast as _ast
    LAZY = {"map", "filter", "zip", "iter", "reversed", "enumerate"}
    n = 0
    for mn in modnames:
        if not repo.has_mod(mn):
            continue
        m = repo.mod(mn)
        holders = [(None, m.tree.body)] + [(c.name, c.body) for c in m.tree.body if isinstance(c, _ast.ClassDef)]
        lazy = {}
        for owner, body in holders:
            for st in body:
                if isinstance(st, _ast.Assign) and len(st.targets) == 1 and isinstance(st.targets[0], _ast.Name):
                    v = st.value
                    if isinstance(v, _ast.GeneratorExp) or (isinstance(v, _ast.Call) and isinstance(v.func, _ast.Name) and v.func.id in LAZY):
                        lazy[(owner, st.targets[0].id)] = st
        n += 1
        for (owner, nm), st in sorted(lazy.items(), key=lambda kv: kv[1].lineno):
            readers = []
            for m2 in repo.tk_modules():
                for fd in _ast.walk(m2.tree):
                    if not isinstance(fd, _ast.FunctionDef):
                        continue
                    for x in _ast.walk(fd):
                        if isinstance(x, _ast.Name) and x.id == nm and isinstance(x.ctx, _ast.Load) and owner is None \
                                and (m2 is m or not any(isinstance(y, _ast.Name) and y.id == nm and isinstance(y.ctx, _ast.Store)
                                                        for y in _ast.walk(m2.tree))):
                            readers.append("%s.%s" % (m2.name, fd.name))        # (the flat toolkit namespace: `from m import *`)
                        if isinstance(x, _ast.Attribute) and x.attr == nm and isinstance(x.ctx, _ast.Load) and owner is not None:
                            readers.append("%s.%s" % (m2.name, fd.name))
            L.ob(rule, m.rel, "%s%s" % (owner + "." if owner else "", nm),
                 "`%s` is bound once to a one-shot iterator (%s): no function reads it (its elements are gone after the first use)" % (
                     nm, "generator expression" if isinstance(st.value, _ast.GeneratorExp) else st.value.func.id + "()"),
                 "no reader", sorted(set(readers))[:4], not readers, st.lineno)
    L.floor(rule, "modules scanned for one-shot iterator constants", n, 1)
