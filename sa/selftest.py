# Self-test of the checker: mutants (one seeded fault each) must fire with
# exit 1, twins (behaviour-preserving refactors) must stay silent (exit 0).
# Edits are exact-text replacements on a scratch copy of the analysed
# subtrees of the *current* /repo; the copy lives under ${TMPDIR:-/var/tmp}
# and is deleted immediately.
#
#   ./vcheck --selftest [Cxx ...] [--jobs N] [--id ID]

import json
import os
import shutil
import subprocess
import sys
import tempfile
import concurrent.futures as cf

HERE = os.path.dirname(os.path.abspath(__file__))
VERIF = os.path.dirname(HERE)

SUBTREES = [
    "src/target/trx_toolkit",
    "src/host/trxcon",
    "src/host/osmocon",
    "src/target/firmware/comm",
    "src/target/firmware/calypso",
    "src/target/firmware/board",
    "src/target/firmware/layer1",
    "src/target/firmware/include",
    "src/shared/libosmocore/include",
    "src/shared/libosmocore/src",
    "src/host/layer23/src/common",
    "src/host/layer23/src/mobile",
    "src/host/layer23/include",
    "include",
]


def _link_or_copy(src, dst):
    try:
        os.link(src, dst)
    except OSError:
        shutil.copy2(src, dst)


def make_scratch(repo):
    base = os.environ.get("TMPDIR") or "/var/tmp"
    d = tempfile.mkdtemp(prefix="vsa-", dir=base)
    for st in SUBTREES:
        s = os.path.join(repo, st)
        if not os.path.isdir(s):
            continue
        # real copies (not hard links): an in-place write to /repo must never leak into a scratch
        # tree and vice versa
        shutil.copytree(s, os.path.join(d, st), symlinks=True)
    return d


def apply_edit(root, case):
    if case.get("patch"):
        r = subprocess.run(["patch", "-p1", "-s", "-d", root, "-i", case["patch"]],
                           stdout=subprocess.PIPE, stderr=subprocess.STDOUT, text=True)
        return None if r.returncode == 0 else "stale (patch does not apply: %s)" % r.stdout[:120]
    edits = case.get("edits") or [case]
    for e in edits:
        p = os.path.join(root, e["file"])
        with open(p, "r", encoding="utf-8", errors="surrogateescape") as f:
            src = f.read()
        cnt = src.count(e["old"])
        if cnt != e.get("count", 1):
            return "stale (old text occurs %d times in %s)" % (cnt, e["file"])
        new = src.replace(e["old"], e["new"])
        os.unlink(p)       # break the hard link
        with open(p, "w", encoding="utf-8", errors="surrogateescape") as f:
            f.write(new)
    return None


def run_case(case, repo):
    d = make_scratch(repo)
    try:
        stale = apply_edit(d, case)
        if stale:
            return case, "stale", stale
        env = dict(os.environ)
        env["VERIF_EVIDENCE_OUT"] = os.path.join(d, "evidence.json")
        env["VERIF_NO_SELFTEST"] = "1"
        p = subprocess.run([sys.executable, "-B", os.path.join(HERE, "check.py"),
                            case["prop"], case.get("tier", "quick"), "--repo", d],
                           stdout=subprocess.PIPE, stderr=subprocess.STDOUT,
                           text=True, env=env, timeout=600)
        out = p.stdout
        expect = case["expect"]
        if expect == "fire":
            ok = p.returncode == 1 and "VIOLATION property=%s" % case["prop"] in out
            if ok and case.get("rule"):
                ok = ("[%s]" % case["rule"]) in out
        elif expect == "silent":
            ok = p.returncode == 0 and "VIOLATION" not in out
        else:   # 'error': must not pass silently (exit 1 or 2)
            ok = p.returncode in (1, 2)
        return case, "ok" if ok else "FAIL", "rc=%d\n%s" % (p.returncode, out[-1500:])
    finally:
        shutil.rmtree(d, ignore_errors=True)


def _patched_files(path):
    out = set()
    try:
        with open(path) as f:
            for l in f:
                if l.startswith("+++ b/"):
                    out.add(l[6:].strip())
    except OSError:
        pass
    return out


def _prop_files(prop):
    """files a property's check reads (from its last evidence)"""
    try:
        with open(os.path.join(VERIF, "evidence", "%s.json" % prop)) as f:
            return set(json.load(f)["coverage"].get("files", {}))
    except (OSError, ValueError, KeyError):
        return None


def load_corpus(props=None, with_patches=False):
    cases = []
    d = os.path.join(VERIF, "selftest")
    for fn in sorted(os.listdir(d)):
        if fn.endswith(".json") and not fn.endswith(".known.json"):
            with open(os.path.join(d, fn)) as f:
                for c in json.load(f):
                    cases.append(c)
    if with_patches and props:
        # independently written changes: seeds that a property's check reports (expect fire) and
        # behaviour-preserving twins touching files the check reads (expect silent)
        sd = os.path.join(VERIF, "seeded")
        for sid in sorted(os.listdir(sd)) if os.path.isdir(sd) else []:
            mp = os.path.join(sd, sid, "meta.json")
            if not os.path.exists(mp):
                continue
            try:
                fires = json.load(open(mp)).get("checks_that_fire", [])
            except ValueError:
                continue
            for p in props:
                if p in fires:
                    cases.append({"id": "seed-%s" % sid, "prop": p, "expect": "fire", "patch": os.path.join(sd, sid, "patch.diff")})
        td = os.path.join(VERIF, "twins")
        for tid in sorted(os.listdir(td)) if os.path.isdir(td) else []:
            pp = os.path.join(td, tid, "patch.diff")
            if not os.path.exists(pp):
                continue
            touched = _patched_files(pp)
            for p in props:
                pf = _prop_files(p)
                if pf is None or touched & pf:
                    cases.append({"id": "twin-%s" % tid, "prop": p, "expect": "silent", "patch": pp})
    return cases


def run_all(props=None, repo="/repo", jobs=16, only_id=None, verbose=True, with_patches=False):
    cases = [c for c in load_corpus(props, with_patches) if (not props or c["prop"] in props)
             and (only_id is None or c["id"] == only_id)]
    res = {"mutants": 0, "fired": 0, "twins": 0, "silent": 0, "stale": 0,
           "failed": []}
    with cf.ThreadPoolExecutor(max_workers=jobs) as ex:
        for case, st, info in ex.map(lambda c: run_case(c, repo), cases):
            mut = case["expect"] != "silent"
            res["mutants" if mut else "twins"] += 1
            if st == "stale":
                res["stale"] += 1
                if verbose:
                    print("STALE %s %s: %s" % (case["prop"], case["id"], info))
            elif st == "ok":
                res["fired" if mut else "silent"] += 1
                if verbose and only_id:
                    print(info)
            else:
                res["failed"].append(case["id"])
                if verbose:
                    print("SELFTEST-FAIL %s %s (expect %s): %s" % (
                        case["prop"], case["id"], case["expect"], info))
    return res


def main(args):
    jobs = 16
    only = None
    props = []
    wp = False
    i = 0
    while i < len(args):
        if args[i] == "--jobs":
            jobs = int(args[i + 1]); i += 2
        elif args[i] == "--id":
            only = args[i + 1]; i += 2
        elif args[i] == "--with-patches":
            wp = True; i += 1
        else:
            props.append(args[i]); i += 1
    repo = os.environ.get("VERIF_REPO", "/repo")
    r = run_all(props or None, repo, jobs, only, with_patches=wp)
    print("selftest: %d mutants, %d fired; %d twins, %d silent; %d stale; failed=%s" % (
        r["mutants"], r["fired"], r["twins"], r["silent"], r["stale"], r["failed"]))
    return 0 if not r["failed"] and not r["stale"] else 1
