/* analysis-only stub of the autoconf header */
