/* analysis-only stub (firmware builds against newlib, absent here) */
#include <stddef.h>
void *malloc(size_t); void free(void*); void abort(void); int abs(int);
