/* analysis-only stub (firmware builds against newlib, absent here) */
typedef unsigned int size_t; typedef int ssize_t; typedef long off_t;
