/* analysis-only stub (firmware builds against newlib, absent here) */
#define EINVAL 22
#define ENOMEM 12
#define EBUSY 16
#define ENOTSUP 95
#define EIO 5
#define ENODEV 19
