/* analysis-only stub: declarations of the libosmocore FSM API used by trxcon
 * (the bundled libosmocore predates osmo_fsm).  Declarations only. */
#pragma once
#include <stdint.h>
#include <stdbool.h>
#include <osmocom/core/linuxlist.h>
#include <osmocom/core/timer.h>
#include <osmocom/core/utils.h>
#include <osmocom/core/logging.h>
struct osmo_fsm_inst;
enum osmo_fsm_term_cause { OSMO_FSM_TERM_PARENT, OSMO_FSM_TERM_REQUEST, OSMO_FSM_TERM_REGULAR, OSMO_FSM_TERM_ERROR, OSMO_FSM_TERM_TIMEOUT };
struct osmo_fsm_state {
	uint32_t in_event_mask; uint32_t out_state_mask; const char *name;
	void (*action)(struct osmo_fsm_inst *fi, uint32_t event, void *data);
	void (*onenter)(struct osmo_fsm_inst *fi, uint32_t prev_state);
	void (*onleave)(struct osmo_fsm_inst *fi, uint32_t next_state);
};
struct osmo_fsm {
	struct llist_head list; struct llist_head instances; const char *name;
	const struct osmo_fsm_state *states; unsigned int num_states;
	uint32_t allstate_event_mask;
	void (*allstate_action)(struct osmo_fsm_inst *fi, uint32_t event, void *data);
	void (*cleanup)(struct osmo_fsm_inst *fi, enum osmo_fsm_term_cause cause);
	int (*timer_cb)(struct osmo_fsm_inst *fi);
	const struct value_string *event_names; int log_subsys;
	void (*pre_term)(struct osmo_fsm_inst *fi, enum osmo_fsm_term_cause cause);
};
struct osmo_fsm_inst {
	struct llist_head list; const char *id; const char *name; struct osmo_fsm *fsm;
	int log_level; uint32_t state; int T; struct osmo_timer_list timer; void *priv;
	struct { struct osmo_fsm_inst *parent; uint32_t parent_term_event; struct llist_head children; struct llist_head child; bool terminating; } proc;
};
int osmo_fsm_register(struct osmo_fsm *fsm);
struct osmo_fsm_inst *osmo_fsm_inst_alloc(struct osmo_fsm *fsm, void *ctx, void *priv, int log_level, const char *id);
struct osmo_fsm_inst *osmo_fsm_inst_alloc_child(struct osmo_fsm *fsm, struct osmo_fsm_inst *parent, uint32_t parent_term_event);
void osmo_fsm_inst_free(struct osmo_fsm_inst *fi);
int osmo_fsm_inst_state_chg(struct osmo_fsm_inst *fi, uint32_t new_state, unsigned long timeout_secs, int T);
int osmo_fsm_inst_dispatch(struct osmo_fsm_inst *fi, uint32_t event, void *data);
void osmo_fsm_inst_term(struct osmo_fsm_inst *fi, enum osmo_fsm_term_cause cause, void *data);
const char *osmo_fsm_inst_name(const struct osmo_fsm_inst *fi);
const char *osmo_fsm_event_name(const struct osmo_fsm *fsm, uint32_t event);
#define LOGPFSML(fi, level, fmt, args...) do { (void)(fi); } while (0)
#define LOGPFSMSL(fi, ss, level, fmt, args...) do { (void)(fi); } while (0)
#define LOGPFSM(fi, fmt, args...) do { (void)(fi); } while (0)
#ifndef OSMO_ASSERT
#define OSMO_ASSERT(x) do { (void)(x); } while (0)
#endif
