/* analysis-only, force-included: identifiers of current libosmocore that the
 * bundled (older) copy lacks.  Values copied from upstream libosmocore
 * (include/osmocom/gsm/gsm0502.h, gsm_utils.h); part of the trusted base. */
#pragma once
#include <osmocom/gsm/gsm_utils.h>
#define GSM_PCHAN_CCCH_SDCCH4_CBCH	((enum gsm_phys_chan_config) 9)
#define GSM_PCHAN_SDCCH8_SACCH8C_CBCH	((enum gsm_phys_chan_config) 10)
#define _GSM_PCHAN_MAX			12
#define GSM_TDMA_SUPERFRAME		(26 * 51)
#define GSM_TDMA_HYPERFRAME		(GSM_TDMA_SUPERFRAME * 2048)
#define GSM_TDMA_FN_SUM(a, b)		(((a) + (b)) % GSM_TDMA_HYPERFRAME)
#define GSM_TDMA_FN_SUB(a, b)		(((a) + GSM_TDMA_HYPERFRAME - (b)) % GSM_TDMA_HYPERFRAME)
#define GSM_TDMA_FN_INC(fn)		((fn) = GSM_TDMA_FN_SUM((fn), 1))
#define GSM_TDMA_FN_DIFF(a, b)		(((a) > (b)) ? ((a) - (b)) : ((b) - (a)))
#define GSM_NBITS_NB_GMSK_BURST		148
#define GSM_NBITS_NB_8PSK_BURST		444
#define GSM_BURST_LEN			148
#define GSM_MACBLOCK_LEN		23
#define GSM_TDMA_FN_DURATION_uS		4615
#define GSM_TDMA_FN_DURATION_nS		4615384
#define RSL_CHAN_OSMO_PDCH		0xc0
#define RSL_CHAN_OSMO_CBCH4		0xc8
#define RSL_CHAN_OSMO_CBCH8		0xd0
#include <osmocom/core/linuxlist.h>
#ifndef llist_first_entry_or_null
#define llist_first_entry(ptr, type, member) llist_entry((ptr)->next, type, member)
#define llist_first_entry_or_null(ptr, type, member) \
	(!llist_empty(ptr) ? llist_first_entry(ptr, type, member) : NULL)
#endif
#ifndef OSMO_VALUE_STRING
#define OSMO_VALUE_STRING(x) { x, #x }
#endif
#define ABIS_RSL_CHAN_NR_CBITS_Bm_ACCHs		0x01
#define ABIS_RSL_CHAN_NR_CBITS_OSMO_PDCH	0x18
#define ABIS_RSL_CHAN_NR_CBITS_OSMO_CBCH4	0x19
#define ABIS_RSL_CHAN_NR_CBITS_OSMO_CBCH8	0x1a
