/* analysis-only stub */
#pragma once
#include <stddef.h>
void *_talloc_zero(const void *ctx, size_t size, const char *name);
void *talloc_named_const(const void *ctx, size_t size, const char *name);
int _talloc_free(void *ptr, const char *location);
#define talloc_zero(ctx, type) ((type *)_talloc_zero(ctx, sizeof(type), #type))
#define talloc(ctx, type) ((type *)talloc_named_const(ctx, sizeof(type), #type))
#define talloc_free(p) _talloc_free(p, "")
void *talloc_zero_size(const void *ctx, size_t size);
void *talloc_size(const void *ctx, size_t size);
char *talloc_strdup(const void *ctx, const char *p);
void *talloc_memdup(const void *ctx, const void *p, size_t size);
void *talloc_zero_array(const void *ctx, size_t el, unsigned n, const char *name);
